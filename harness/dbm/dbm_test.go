package dbm

import (
	"strings"
	"sync"
	"testing"

	"github.com/cockroachdb/pebble"
	"github.com/cockroachdb/pebble/verifharness/evid"
	"pgregory.net/rapid"
)

var opWDefault = map[string]int{"set": 30, "del": 8, "merge": 8, "delrange": 6, "sdel": 5, "delsized": 4, "rkset": 6, "rkunset": 3, "rkdel": 2, "logdata": 1}

var profLatest = Profile{
	Name: "latest", MinSteps: 15, MaxSteps: 70, IterOpsMax: 6,
	W: map[string]int{"write": 30, "batch": 10, "bigbatch": 2, "get": 12, "scan": 8, "flush": 6, "compact": 4, "wait": 4,
		"restart": 2, "ingest": 5, "ingestexcise": 2, "excise": 2},
	OpW: opWDefault, MaxSnaps: 0, MaxIters: 0,
}

func init() {
	// C01 holds for every history: a third of its cases use the deep-LSM
	// (ingest-built levels, multi-level compactions) and the ingest/excise
	// history shapes of C15 and C36.
	profLatest.Alt, profLatest.AltPct = []Profile{profLevelInv, profIngest}, 33
}

func anyLabel(ls []string, pfx string) bool {
	for _, l := range ls {
		if strings.HasPrefix(l, pfx) {
			return true
		}
	}
	return false
}

func hasLabel(ls []string, x string) bool {
	for _, l := range ls {
		if l == x {
			return true
		}
	}
	return false
}

var commonAssumptions = []string{"vfs.MemFS is a correct file system", "testkeys comparer; keyspace of 11 prefixes x 7 suffixes, range-key/range-deletion bounds are bare prefixes",
	"background work is quiesced only at 'wait' steps (testing/synctest); between them flushes/compactions race with the foreground as scheduled by the Go runtime",
	"the reference model (harness/dbm/model.go) is written from the documented semantics, not from the implementation"}

// dbCheck registers one DB-level model-based check.
func dbCheck(t *testing.T, id string, prof Profile, rule string, quick, thorough int, nt func(res Result, labels []string) bool, finish func(r *Runner) error) {
	dbCheckKnown(t, evid.Known[Plan]{}, id, prof, rule, quick, thorough, nt, finish)
}

// dbCheckKnown is dbCheck with a known-finding demonstration.
func dbCheckKnown(t *testing.T, known evid.Known[Plan], id string, prof Profile, rule string, quick, thorough int, nt func(res Result, labels []string) bool, finish func(r *Runner) error) {
	InBubble = true
	var kn []evid.Known[Plan]
	if known.Signature != "" {
		kn = append(kn, known)
	}
	evid.Run(t, evid.Spec[Plan]{
		ID: id, Level: "exploration", Bubble: true, Rule: rule, Assumptions: commonAssumptions, Known: kn,
		Gen: func(t *rapid.T) Plan { return Generate(t, prof) },
		Exec: func(p Plan) (evid.Outcome, error) {
			res, err := RunPlan(p, finish)
			out := res.Outcome()
			out.NonTrivial = nt(res, out.Labels)
			return out, err
		},
		Quick: quick, Thorough: thorough,
		Sample: func(p Plan) any { return p.Summary() },
	})
}

func TestC01(t *testing.T) {
	InBubble = true
	evid.Run(t, evid.Spec[Plan]{
		ID: "C01", Level: "exploration", Bubble: true,
		Rule: "rapid draws DB options and a single-threaded history (writes, batches incl. large batches, ingests, excises, flush, compact, restart, waits) with Get and full scans interleaved; every read is compared with the sequential reference model. " +
			"non-trivial = the history contains a delete-class op AND at least one flush and one compaction (or a large batch / flushable ingest) happened before the final full comparison; distinct = hash of the plan JSON",
		Assumptions: []string{"vfs.MemFS is a correct file system", "testkeys comparer; keyspace of 11 prefixes x 7 suffixes", "background work is quiesced only at 'wait' steps (testing/synctest)"},
		Gen:         func(t *rapid.T) Plan { return Generate(t, profLatest) },
		Exec: func(p Plan) (evid.Outcome, error) {
			res, err := RunPlan(p, nil)
			out := res.Outcome()
			del := hasLabel(out.Labels, "op=del") || hasLabel(out.Labels, "op=delrange") || hasLabel(out.Labels, "op=sdel") || hasLabel(out.Labels, "op=delsized") || hasLabel(out.Labels, "excise")
			out.NonTrivial = del && ((hasLabel(out.Labels, "flushed") && anyLabel(out.Labels, "compaction=")) || hasLabel(out.Labels, "large-batch") || hasLabel(out.Labels, "flushable-ingest"))
			return out, err
		},
		Quick: 250, Thorough: 1500,
		Sample: func(p Plan) any { return p.Summary() },
	})
}

var profIterOps = Profile{
	Name: "iterops", MinSteps: 10, MaxSteps: 45, IterOpsMax: 14, MaxIters: 3,
	W:   map[string]int{"write": 26, "batch": 8, "flush": 6, "compact": 3, "wait": 3, "ingest": 4, "iternew": 12, "iterop": 30, "iterclose": 4, "iterclone": 2, "restart": 1},
	OpW: opWDefault,
}

func TestC02(t *testing.T) {
	dbCheck(t, "C02", profIterOps,
		"rapid draws DB options, a write history that builds an LSM (memtable, L0 sublevels, lower levels via flush/compact/ingest) and up to 3 concurrent-lifetime iterators with drawn bounds/key types receiving SeekGE/SeekLT/SeekPrefixGE/First/Last/Next/Prev/NextPrefix/*WithLimit/SetBounds/SetOptions sequences; every result (validity state, key, value, HasPointAndRange, RangeBounds, RangeKeys, RangeKeyChanged) is compared with the iterator model at the iterator's version (limits as validity predicates). "+
			"non-trivial = >=20 iterator ops executed incl. a limit pause or a bounds change, with data in sstables (a flush happened); distinct = hash of plan JSON",
		300, 2000,
		func(res Result, ls []string) bool {
			return res.C["iterops"] >= 20 && hasLabel(ls, "flushed") && (res.C["iter-at-limit"] > 0 || res.C["iter-setbounds"] > 0)
		}, nil)
}

var profSnapshots = Profile{
	Name: "snapshots", MinSteps: 15, MaxSteps: 70, IterOpsMax: 6, MaxSnaps: 4, MaxIters: 2,
	W: map[string]int{"write": 30, "batch": 8, "flush": 7, "compact": 6, "wait": 4, "ingest": 4, "snap": 8, "snapread": 22, "snapclose": 4,
		"iternew": 3, "iterop": 5, "iterclose": 2, "restart": 0, "excise": 1, "ingestexcise": 1, "get": 3},
	OpW: opWDefault,
}

func TestC03(t *testing.T) {
	dbCheck(t, "C03", profSnapshots,
		"histories as C01 with up to 4 live snapshots opened at drawn points and read (Get, scans in both directions, iterator op sequences) arbitrarily later, closed in drawn order; each read is compared with the model version current at snapshot creation (after an excise only outside the excised span: documented exception). "+
			"non-trivial = a snapshot was read after at least one compaction and one flush happened in the case and writes followed the snapshot; distinct = hash of plan JSON",
		250, 1500,
		func(res Result, ls []string) bool {
			return res.C["snap-reads-after-write"] > 0 && hasLabel(ls, "flushed") && anyLabel(ls, "compaction=")
		}, nil)
}

var profPinned = Profile{
	Name: "pinned", MinSteps: 15, MaxSteps: 60, IterOpsMax: 5, MaxSnaps: 2, MaxIters: 4, MaxBatches: 2,
	W: map[string]int{"write": 26, "batch": 8, "flush": 8, "compact": 7, "wait": 6, "ingest": 4, "excise": 2, "ingestexcise": 2, "snap": 3, "snapclose": 1,
		"iternew": 10, "iterop": 26, "iterclone": 6, "iterclose": 3, "ibnew": 3, "ibop": 8, "ibcommit": 1, "ibclose": 1},
	OpW: opWDefault,
}

func TestC04(t *testing.T) {
	dbCheck(t, "C04", profPinned,
		"iterators on the DB, on snapshots and on indexed batches are opened, partially advanced and then held across writes, flushes, compactions (with obsolete-file deletion), ingests and excises; later ops, Clones (with/without RefreshBatchView and new options) and SetOptions are compared with the model at the iterator's creation version / batch view. "+
			"non-trivial = an iterator created in an earlier step was operated on after tables were deleted or a compaction ran in between (held-iter-ops>0 and tables-deleted or compaction labels); distinct = hash of plan JSON",
		250, 1500,
		func(res Result, ls []string) bool {
			return res.C["held-iter-ops"] > 0 && (hasLabel(ls, "tables-deleted") || anyLabel(ls, "compaction="))
		}, nil)
}

var profIBatch = Profile{
	Name: "ibatch", MinSteps: 12, MaxSteps: 55, IterOpsMax: 6, MaxIters: 2, MaxBatches: 2,
	W: map[string]int{"write": 20, "batch": 5, "flush": 5, "compact": 2, "wait": 2, "get": 6, "scan": 4,
		"ibnew": 8, "ibop": 26, "ibread": 24, "ibcommit": 4, "ibclose": 3, "iternew": 4, "iterop": 8, "iterclose": 2},
	OpW: map[string]int{"set": 24, "del": 8, "merge": 10, "delrange": 10, "sdel": 2, "delsized": 3, "rkset": 10, "rkunset": 5, "rkdel": 4, "logdata": 1},
}

func TestC05(t *testing.T) {
	dbCheck(t, "C05", profIBatch,
		"long-lived indexed batches receive all op kinds (incl. DeleteRange, Merge, range keys) while the DB below changes; Batch.Get and batch iterators/scans are compared with apply(batch ops, model[latest]); DB reads in between never show uncommitted ops; Commit appends the ops to the model, Close without commit has no effect. "+
			"non-trivial = a batch holding a DeleteRange, Merge or range-key op was read over a non-empty DB; distinct = hash of plan JSON",
		250, 1500,
		func(res Result, ls []string) bool {
			return res.C["batch-reads"] > 0 && (hasLabel(ls, "ibop=delrange") || hasLabel(ls, "ibop=merge") || hasLabel(ls, "ibop=rkset") || hasLabel(ls, "ibop=rkdel"))
		}, nil)
}

var profRangeKeys = Profile{
	Name: "rangekeys", MinSteps: 12, MaxSteps: 55, IterOpsMax: 10, MaxIters: 2, MaxSnaps: 1,
	W:   map[string]int{"write": 30, "batch": 10, "flush": 8, "compact": 5, "wait": 3, "ingest": 6, "scan": 14, "iternew": 8, "iterop": 16, "iterclose": 3, "restart": 1, "snap": 1, "snapread": 2, "snapclose": 1},
	OpW: map[string]int{"set": 12, "del": 3, "merge": 2, "delrange": 8, "rkset": 30, "rkunset": 14, "rkdel": 10},
}

func TestC08(t *testing.T) {
	dbCheck(t, "C08", profRangeKeys,
		"histories dominated by RangeKeySet/Unset/Delete with 4 suffixes and overlapping spans (direct writes, batches, ingested tables) mixed with points and DeleteRange, flushed/compacted into several levels; scans and iterator op sequences with IterKeyTypeRangesOnly / PointsAndRanges, drawn bounds and prefix seeks are compared with the atom model: RangeKeys() = model set, RangeBounds() = maximal constant run clipped to bounds/prefix, positions = points U clipped span starts. "+
			"non-trivial = >=2 range-key writes with different suffixes, data flushed, and a bounded iterator/scan was compared; distinct = hash of plan JSON",
		250, 1500,
		func(res Result, ls []string) bool {
			return hasLabel(ls, "op=rkset") && hasLabel(ls, "flushed") && res.C["iterops"] >= 10
		}, nil)
}

var profMasking = Profile{
	Name: "masking", MinSteps: 12, MaxSteps: 50, IterOpsMax: 10, MaxIters: 2, Masking: true,
	W:   map[string]int{"write": 30, "batch": 14, "flush": 9, "compact": 5, "wait": 3, "ingest": 4, "scan": 20, "iternew": 8, "iterop": 16, "iterclose": 3},
	OpW: map[string]int{"set": 34, "del": 2, "merge": 2, "delrange": 1, "rkset": 24, "rkunset": 3, "rkdel": 2},
	Opt: func(t *rapid.T, o *OptPlan) {
		o.BlockSize = rapid.SampledFrom([]int{1, 16, 64}).Draw(t, "maskbs")
	},
}

func TestC09(t *testing.T) {
	dbCheck(t, "C09", profMasking,
		"points with suffixes @1..@6 and unsuffixed, range keys at 4 suffixes, iterators in PointsAndRanges mode with RangeKeyMasking{Suffix:s} with and without the testkeys block-property filter mask (collector configured), tiny blocks so whole blocks are skippable; all iterator ops compared with the model rule 'hidden iff exists r: s <= r < p in suffix order'; range keys always surfaced. "+
			"non-trivial = a masked scan/iterator ran over data in sstables and the model hid at least one point while showing another under a range key; distinct = hash of plan JSON",
		250, 1500,
		func(res Result, ls []string) bool {
			return res.C["masked-points-hidden"] > 0 && hasLabel(ls, "flushed")
		}, nil)
}

func crashGen(quickStride int) func(t *rapid.T, o OptPlan) *CrashPlan {
	return func(t *rapid.T, o OptPlan) *CrashPlan {
		stride := rapid.SampledFrom([]int{quickStride, quickStride * 2, quickStride / 2}).Draw(t, "cstride")
		if evid.GetEnv().Tier == "thorough" {
			stride = rapid.SampledFrom([]int{1, 2, 3, quickStride}).Draw(t, "cstrideT")
		}
		if stride < 1 {
			stride = 1
		}
		cp := &CrashPlan{Stride: stride, Offset: rapid.IntRange(0, stride-1).Draw(t, "coff"),
			Hot: rapid.SampledFrom([]int{1, 2, 3}).Draw(t, "chot"), MaxImages: 250}
		cp.Surv = []int{0, 1, rapid.IntRange(2, 1000).Draw(t, "csalt")}
		if rapid.Bool().Draw(t, "csalt2on") {
			cp.Surv = append(cp.Surv, rapid.IntRange(2, 1000).Draw(t, "csalt2"))
		}
		return cp
	}
}

var crashOpt = func(t *rapid.T, o *OptPlan) {
	o.MemTableSize = rapid.SampledFrom([]int{4 << 10, 8 << 10, 32 << 10, 256 << 10}).Draw(t, "cmem")
	o.MaxManifest = rapid.SampledFrom([]int64{1, 200, 4096}).Draw(t, "cmaxman")
}

var profCrashDurable = Profile{
	Name: "crash-durable", BlobIngestPct: 35, WALRelocate: true, BigRecordPct: 6, SchedPct: 60, MinSteps: 8, MaxSteps: 35, DurableIngest: true, SyncPct: 45,
	W:   map[string]int{"write": 40, "batch": 14, "bigbatch": 2, "flush": 6, "compact": 3, "wait": 3, "ingest": 4, "ingestexcise": 2, "excise": 1, "restart": 2},
	OpW: opWDefault, CrashGen: crashGen(9),
	Opt: func(t *rapid.T, o *OptPlan) { crashOpt(t, o); o.DisableWAL = false },
}

func TestC10(t *testing.T) {
	InBubble = true
	p := profCrashDurable
	evid.Run(t, evid.Spec[Plan]{
		ID: "C10", Level: "fault_enumeration", Bubble: true,
		Rule: "rapid draws DB options (small memtables: WAL rotation/recycling; tiny MaxManifestFileSize: MANIFEST rotation; WALDir on/off; format versions on both sides of the WAL-sync chunk format) and a history with a drawn Sync flag per commit (incl. ApplyNoSyncWait+SyncWait), Flush, Compact, Ingest/IngestAndExcise/Excise (issued only when nothing is pending durability), restarts; a crash image is taken before every Stride-th mutating file-system operation and before every WAL-control/MANIFEST/marker/OPTIONS/rename/remove/dir-sync operation, for survival subsets {none, all, 1-2 pseudo-random subsets} of the unsynced 4KiB blocks and directory entries (deterministic MemFS crash clone). Every image must reopen and its full state must equal model[k] for some k in [durable, latest(+in-flight)]. " +
			"non-trivial image = taken after a durable acknowledgement (durable version > 0) while un-durable data or several candidate versions existed; a case is non-trivial if it has such an image after a WAL rotation or flush; distinct = hash of plan JSON",
		Assumptions: append([]string{"crash model = vfs.MemFS's: synced data survives; each unsynced 4KiB block and each unsynced directory entry survives independently; unsynced removals may be undone. Not a model of every real file system."}, commonAssumptions...),
		Gen: func(t *rapid.T) Plan {
			if rapid.IntRange(0, 99).Draw(t, "provplan") < 8 {
				return Plan{Profile: "provider-sync", Prov: genProvPlan(t)}
			}
			return Generate(t, p)
		},
		Exec: func(pl Plan) (evid.Outcome, error) {
			if pl.Prov != nil {
				return execProvOutcome(pl.Prov)
			}
			res, err := RunPlan(pl, nil)
			out := res.Outcome()
			out.NonTrivial = res.C["crash-images-after-durable-ack"] > 0 && res.C["crash-images-ambiguous"] > 0 && hasLabel(out.Labels, "flushed")
			return out, err
		},
		Quick: 70, Thorough: 400,
		Sample: func(p Plan) any { return p.Summary() },
	})
}

// crashCheck registers a crash-engine check.
func crashCheck(t *testing.T, id string, prof Profile, rule string, quick, thorough int, nt func(res Result, labels []string) bool, known ...evid.Known[Plan]) {
	InBubble = true
	evid.Run(t, evid.Spec[Plan]{
		ID: id, Level: "fault_enumeration", Bubble: true, Rule: rule, Known: known,
		Assumptions: append([]string{"crash model = vfs.MemFS's: synced data survives; each unsynced 4KiB block and each unsynced directory entry survives independently; unsynced removals may be undone. Not a model of every real file system.",
			"crash points are file-system operation boundaries (images are taken before the selected mutating operation); survival subsets: none, all, and pseudo-random subsets"}, commonAssumptions...),
		Gen: func(t *rapid.T) Plan {
			if provPct > 0 && rapid.IntRange(0, 99).Draw(t, "provplan") < provPct {
				return Plan{Profile: "provider-sync", Prov: genProvPlan(t)}
			}
			if handlePct > 0 && rapid.IntRange(0, 99).Draw(t, "handleplan") < handlePct {
				return Plan{Profile: "blob-handle-codec", Handles: genHandles(t)}
			}
			return Generate(t, prof)
		},
		Exec: func(pl Plan) (evid.Outcome, error) {
			if pl.Prov != nil {
				return execProvOutcome(pl.Prov)
			}
			if len(pl.Handles) > 0 {
				c, err := execHandles(pl.Handles)
				return evid.Outcome{Counters: c, Labels: []string{"kind=blob-handle-codec"}, NonTrivial: c["handle-roundtrips-wide-field"] > 0}, err
			}
			res, err := RunPlan(pl, nil)
			out := res.Outcome()
			out.NonTrivial = nt(res, out.Labels)
			return out, err
		},
		Quick: quick, Thorough: thorough,
		Sample: func(p Plan) any { return p.Summary() },
	})
}

// provPct is the share of provider-level schedule cases in the checks that
// include them (C10, C12).
var provPct = 0

// handlePct is the share of blob-handle codec cases (C44).
var handlePct = 0

func execProvOutcome(p *ProvPlan) (evid.Outcome, error) {
	c, err := execProvPlan(p)
	out := evid.Outcome{Counters: c, Labels: []string{"kind=provider-sync-schedule"}}
	if p.Exhaustive {
		out.Labels = append(out.Labels, "provider-all-schedules")
	}
	out.NonTrivial = c["prov-syncs-interleaved-with-create-or-remove"] > 0
	return out, err
}

var profCrashPrefix = Profile{
	Name: "crash-prefix", BlobIngestPct: 35, WALRelocate: true, BigRecordPct: 6, SchedPct: 60, MinSteps: 10, MaxSteps: 40, DurableIngest: true, SyncPct: 12,
	W:        map[string]int{"write": 30, "batch": 26, "bigbatch": 2, "flush": 4, "compact": 2, "wait": 3, "ingest": 2, "restart": 1, "crashrestart": 5},
	OpW:      map[string]int{"set": 22, "del": 12, "merge": 16, "delrange": 10, "sdel": 8, "delsized": 4, "rkset": 6, "rkunset": 3, "rkdel": 2, "logdata": 1},
	CrashGen: crashGen(11),
	Opt:      func(t *rapid.T, o *OptPlan) { crashOpt(t, o); o.DisableWAL = false },
}

// baseOpt is a plain configuration for hand-written demonstration plans.
func baseOpt() OptPlan {
	return OptPlan{FMV: int(pebble.FormatNewest), MemTableSize: 32 << 10, MemStop: 2, L0Compaction: 2, L0CompactionFiles: 500, LBaseMaxBytes: 1 << 20,
		TargetFileSize: 16 << 10, BlockSize: 4096, IndexBlockSize: 4096, RestartInterval: 16, MaxManifest: 128 << 20, ConcurrencyMax: 1, BundleSize: 16, CacheSize: 1 << 20}
}

// sigC11Ingest: an ingestion that does not overlap the memtable is made durable
// by the MANIFEST although earlier, not yet synced, key-disjoint commits are
// only in the WAL buffer: after a crash the later ingestion is present and the
// earlier write is gone, which is no prefix of the history.
const sigC11Ingest = "ingest-survives-crash-while-earlier-unsynced-write-is-lost"

var knownC11 = evid.Known[Plan]{Signature: sigC11Ingest, Plan: Plan{Profile: "crash-prefix", Opt: baseOpt(),
	Crash: &CrashPlan{Stride: 0, Surv: []int{0}, MaxImages: 1},
	Steps: []Step{
		{K: "write", Ops: []Op{{K: "set", A: "a", V: "v1"}}},
		{K: "ingest", Tables: [][]Op{{{K: "set", A: "c", V: "v2"}}}},
		{K: "crashrestart", N: 0},
	}}}

func TestC11(t *testing.T) {
	profCrashPrefix := profCrashPrefix
	// excluded by construction while the finding is listed (the generator then
	// flushes before an ingest/excise whenever un-synced commits are pending)
	profCrashPrefix.DurableIngest = evid.FindingActive("C11", sigC11Ingest)
	crashCheck(t, "C11", profCrashPrefix,
		"as C10 but mostly NoSync commits, multi-op batches (atomicity), delete/range-delete/single-delete/merge heavy histories (resurrection and double application are observable: a replayed Merge appends twice) and 0-3 crash-and-continue cycles per case: at a drawn point a crash image with a drawn survival subset replaces the store, the recovered state must equal model[k] for some k in [durable, latest], the model is reset to that k and the history continues (second-generation images are checked the same way, including images taken during recovery). "+
			"non-trivial = at least two candidate states differed for some image (ambiguous window) and a crash-and-continue happened or an image recovered a k strictly inside the window; distinct = hash of plan JSON",
		70, 400,
		func(res Result, ls []string) bool {
			return res.C["crash-images-ambiguous"] > 0 && (res.C["crash-restarts"] > 0 || res.C["crash-recovered-strictly-inside"] > 0)
		}, knownC11)
}

var profCrashFlush = Profile{
	Name: "crash-flush", WALRelocate: true, BigRecordPct: 6, SchedPct: 60, MinSteps: 8, MaxSteps: 30, DurableIngest: true, SyncPct: 1,
	W:   map[string]int{"write": 40, "batch": 14, "flush": 12, "compact": 3, "wait": 4, "restart": 6, "ingest": 2},
	OpW: opWDefault, CrashGen: crashGen(9),
	Opt: func(t *rapid.T, o *OptPlan) {
		crashOpt(t, o)
		o.DisableWAL = rapid.Bool().Draw(t, "c12nowal")
	},
}

func TestC12(t *testing.T) {
	provPct = 8
	defer func() { provPct = 0 }()
	crashCheck(t, "C12", profCrashFlush,
		"NoSync commits and (half of the cases) DisableWAL configurations, then Flush or Close+reopen; crash images are taken at every selected FS operation after the call returned (until the end of the plan, including while later compactions delete the flushed inputs); survival 'none' is always among the subsets; every image must recover a state >= the version at the Flush/Close (durable point). "+
			"non-trivial = an image was taken after a Flush/Close made un-synced (NoSync or WAL-less) data durable; distinct = hash of plan JSON",
		70, 400,
		func(res Result, ls []string) bool {
			return res.C["crash-images-after-durable-ack"] > 0 && hasLabel(ls, "flushed")
		})
}

var profORGD = Profile{
	Name: "orgd", MinSteps: 8, MaxSteps: 35, DurableIngest: true, SyncPct: 30,
	W:        map[string]int{"write": 40, "batch": 12, "flush": 8, "compact": 3, "wait": 3, "ingest": 2, "restart": 1, "orgd": 14},
	OpW:      opWDefault,
	CrashGen: func(t *rapid.T, o OptPlan) *CrashPlan { return &CrashPlan{Stride: 0, Surv: []int{0}, MaxImages: 1} },
	Opt:      crashOpt,
}

// sigC13Ingest: an OnlyReadGuaranteedDurable iterator ignores the memtables but
// shows every table of the current version; an ingestion that did not overlap
// the memtable (so it was not flushed first) is shown although earlier commits,
// still in the memtable, are not: no prefix of the history.
const sigC13Ingest = "orgd-shows-ingest-without-earlier-unflushed-writes"

var knownC13 = evid.Known[Plan]{Signature: sigC13Ingest, Plan: Plan{Profile: "orgd", Opt: baseOpt(),
	Crash: &CrashPlan{Stride: 0, Surv: []int{0}, MaxImages: 1},
	Steps: []Step{
		{K: "write", Ops: []Op{{K: "set", A: "a", V: "v1"}}, Sync: true},
		{K: "ingest", Tables: [][]Op{{{K: "set", A: "c", V: "v2"}}}},
		{K: "orgd"},
	}}}

func TestC13(t *testing.T) {
	profORGD := profORGD
	profORGD.FlushBeforeIngest = evid.FindingActive("C13", sigC13Ingest)
	crashCheck(t, "C13", profORGD,
		"mixed Sync/NoSync histories with flushes (ingests only when the memtable is flushed); at drawn quiescent points an iterator is opened with OnlyReadGuaranteedDurable and, at that moment, a crash image keeping only synced data is taken; the iterator content must equal model[k1] for some k1 and the image must recover model[k2] with k1 <= k2. "+
			"non-trivial = 0 < k1 < latest (the memtable held newer data that had to be excluded and something durable existed); distinct = hash of plan JSON",
		150, 800,
		func(res Result, ls []string) bool { return res.C["orgd-reads-strict-prefix"] > 0 }, knownC13)
}

var profManifest = Profile{
	Name: "manifest", BlobIngestPct: 35, WALRelocate: true, SchedPct: 60, MinSteps: 8, MaxSteps: 26, DurableIngest: true, SyncPct: 30,
	W:   map[string]int{"write": 30, "batch": 10, "flush": 16, "compact": 10, "wait": 4, "ingest": 10, "ingestexcise": 4, "excise": 3, "restart": 2},
	OpW: opWDefault,
	CrashGen: func(t *rapid.T, o OptPlan) *CrashPlan {
		return &CrashPlan{Stride: 0, Hot: 1, Surv: []int{0, 1, rapid.IntRange(2, 1000).Draw(t, "csalt")}, MaxImages: 400}
	},
	Opt: func(t *rapid.T, o *OptPlan) {
		o.MaxManifest = rapid.SampledFrom([]int64{1, 1, 300, 4096}).Draw(t, "c22maxman")
		o.MemTableSize = 32 << 10
		o.DisableWAL = false
	},
}

func TestC22(t *testing.T) {
	provPct = 8
	defer func() { provPct = 0 }()
	crashCheck(t, "C22", profManifest,
		"plans dense in version updates (flush, manual compaction, ingest, ingest-and-excise, excise) with tiny MaxManifestFileSize (a MANIFEST rotation on most edits); a crash image is taken before EVERY file-system operation on a MANIFEST, marker, OPTIONS or WAL-control file and before every rename/remove/link/directory sync, for survival subsets {none, all, random}; each image must reopen (the marker resolves to a complete MANIFEST) and its contents must equal a permitted model version: the version before or after the in-flight update, and at least the last acknowledged one. "+
			"non-trivial = images were taken on manifest/marker operations after a MANIFEST rotation with an acknowledged structural update; distinct = hash of plan JSON",
		40, 250,
		func(res Result, ls []string) bool {
			return res.C["crash-class-manifest"] > 0 && res.C["crash-class-marker"] > 0 && hasLabel(ls, "manifest-rotated") && res.C["crash-images-after-durable-ack"] > 0
		})
}

var profRatchet = Profile{
	Name: "ratchet", SchedPct: 60, MinSteps: 8, MaxSteps: 28, DurableIngest: true, SyncPct: 40,
	W:   map[string]int{"write": 34, "batch": 10, "flush": 8, "compact": 3, "wait": 2, "ingest": 3, "restart": 3, "ratchet": 10, "get": 4, "scan": 3},
	OpW: opWDefault, CrashGen: crashGen(5),
	Opt: func(t *rapid.T, o *OptPlan) {
		o.FMV = rapid.IntRange(int(pebble.FormatMinSupported), int(pebble.FormatNewest)-1).Draw(t, "c40fmv")
		o.ValSep = false
		o.DisableWAL = false
	},
}

func TestC40(t *testing.T) {
	crashCheck(t, "C40", profRatchet,
		"for a drawn starting format major version the DB is filled using only features of that version, RatchetFormatMajorVersion is called with drawn targets (lower: must fail and change nothing; equal; single and multi step) with crash images inside and after the ratchet, followed by reads and writes that use newly enabled features; every image must reopen with a version in [last acknowledged, in-flight target] and contents equal to a permitted model version; after return FormatMajorVersion() >= target. "+
			"non-trivial = a ratchet crossed a version with a real migration step with data present and images were taken; distinct = hash of plan JSON",
		60, 400,
		func(res Result, ls []string) bool {
			return res.C["ratchets"] > 0 && res.C["crash-images"] > 0 && (hasLabel(ls, "ratchet-crosses=1") || hasLabel(ls, "ratchet-crosses=2") || hasLabel(ls, "ratchet-crosses=3") || hasLabel(ls, "ratchet-crosses=4"))
		})
}

var profCheckpoint = Profile{
	Name: "checkpoint", MinSteps: 8, MaxSteps: 35, SyncPct: 25,
	// A checkpoint keeps its WALs inside its own directory; a store configured
	// with a separate WALDir records that path in OPTIONS and the checkpoint
	// cannot be opened without pointing WALRecoveryDirs at the source's live WAL
	// directory. Stores without a separate WALDir are checked.
	Opt: func(t *rapid.T, o *OptPlan) { o.WALDir = false },
	W:   map[string]int{"write": 40, "batch": 12, "flush": 6, "compact": 3, "wait": 3, "restart": 1, "checkpoint": 10, "get": 3, "ingest": 3},
	OpW: opWDefault,
}

// sigC38Ingest: same root cause as sigC11Ingest, seen through a checkpoint: the
// checkpoint holds the LSM (with an ingestion that did not overlap the
// memtable) plus the WAL contents that had reached the file; an earlier commit
// that is only in the memtable (WAL disabled) or in the log writer's buffer is
// missing although the later ingestion is present.
const sigC38Ingest = "checkpoint-has-ingest-without-earlier-unflushed-write"

func TestC38(t *testing.T) {
	profCheckpoint := profCheckpoint
	profCheckpoint.DurableIngest = evid.FindingActive("C38", sigC38Ingest)
	nowal := baseOpt()
	nowal.DisableWAL = true
	InBubble = true
	known := evid.Known[Plan]{Signature: sigC38Ingest, Plan: Plan{Profile: "checkpoint", Opt: nowal, Steps: []Step{
		{K: "write", Ops: []Op{{K: "set", A: "a", V: "v1"}}},
		{K: "ingest", Tables: [][]Op{{{K: "set", A: "c", V: "v2"}}}},
		{K: "checkpoint"},
	}}}
	dbCheckKnown(t, known, "C38", profCheckpoint,
		"Sync/NoSync histories with Checkpoint at drawn points, with/without WithFlushedWAL and WithRestrictToSpans; a third of the checkpoints have an ingestion and/or a batch committed from inside the Checkpoint call (at a drawn file creation/link in the destination directory, i.e. after Checkpoint released the DB locks); each checkpoint is opened as its own DB and its full state (restricted to the spans, if any) must equal model[k] for some k in [durable, latest], where durable counts synced commits, flushes and (with WithFlushedWAL) everything before the call; the source keeps running and is compared with the model as in C01. "+
			"non-trivial = a checkpoint was taken while un-durable commits existed or with restricted spans; distinct = hash of plan JSON",
		150, 1000,
		func(res Result, ls []string) bool {
			return res.C["checkpoints-with-undurable-tail"] > 0 || res.C["checkpoints-restricted"] > 0 || res.C["checkpoints-with-commits-during"] > 0
		}, nil)
}

var profIngest = Profile{
	Name: "ingest", BlobIngestPct: 30, MinSteps: 12, MaxSteps: 55, IterOpsMax: 5, MaxIters: 3, MaxSnaps: 2, MaxEFOS: 1,
	W: map[string]int{"write": 26, "batch": 8, "flush": 4, "compact": 3, "wait": 3, "ingest": 18, "ingestexcise": 8, "excise": 6, "get": 8, "scan": 8,
		"iternew": 5, "iterop": 10, "iterclose": 2, "snap": 2, "snapread": 3, "snapclose": 1, "restart": 1, "efos": 1, "efosread": 2, "efosclose": 1},
	OpW: opWDefault,
	Opt: func(t *rapid.T, o *OptPlan) {
		if o.FMV < int(pebble.FormatVirtualSSTables) && rapid.IntRange(0, 3).Draw(t, "c36fmv") > 0 {
			o.FMV = int(pebble.FormatNewest)
		}
	},
}

func TestC36(t *testing.T) {
	dbCheck(t, "C36", profIngest,
		"histories dense in Ingest (1-3 non-overlapping tables with points, range deletions and range keys; overlapping the memtable or not; DisableIngestAsFlushable and IngestSplit drawn), IngestAndExcise and Excise, mixed with writes, open iterators, snapshots and EFOS; model: an ingestion is one atomic batch applied at that point (at equal seqnum a range deletion does not cover same-ingest points, SET beats UNSET beats DEL), IngestAndExcise = clear span then batch, Excise = clear span; iterators opened before keep their view. "+
			"non-trivial = a flushable ingest happened or an excise produced virtual tables, and reads were compared afterwards; distinct = hash of plan JSON",
		250, 1500,
		func(res Result, ls []string) bool {
			return (hasLabel(ls, "flushable-ingest") || hasLabel(ls, "virtual-tables")) && res.C["ingests"] > 0
		}, nil)
}

var profEFOS = Profile{
	Name: "efos", MinSteps: 12, MaxSteps: 55, IterOpsMax: 5, MaxIters: 2, MaxEFOS: 3,
	W: map[string]int{"write": 30, "batch": 8, "flush": 6, "compact": 5, "wait": 3, "ingest": 3, "ingestexcise": 5, "excise": 6,
		"efos": 8, "efosread": 24, "efoswait": 4, "efosclose": 3, "iternew": 2, "iterop": 4, "iterclose": 1},
	OpW: opWDefault,
	Opt: func(t *rapid.T, o *OptPlan) {
		if o.FMV < int(pebble.FormatVirtualSSTables) {
			o.FMV = int(pebble.FormatNewest)
		}
	},
}

func TestC37(t *testing.T) {
	dbCheck(t, "C37", profEFOS,
		"EventuallyFileOnlySnapshots over 1-2 protected ranges are created at drawn points and read (Get, scans, bounded iterators inside the ranges) before and after WaitForFileOnlySnapshot, after flushes, compactions, and excises/ingest-and-excises overlapping the ranges; every read must equal the model version at EFOS creation. "+
			"non-trivial = an EFOS was read after later writes changed the latest state and an excise or compaction happened in the case; distinct = hash of plan JSON",
		250, 1500,
		func(res Result, ls []string) bool {
			return res.C["efos-reads-after-write"] > 0 && (hasLabel(ls, "excise") || hasLabel(ls, "ingest-excise") || anyLabel(ls, "compaction="))
		}, nil)
}

var profLevels = Profile{
	Name: "merged-levels", MinSteps: 14, MaxSteps: 60, IterOpsMax: 14, MaxIters: 3, MaxSnaps: 3, NoRangeKeys: true, DurableIngest: true,
	W: map[string]int{"write": 22, "batch": 8, "flush": 8, "ingest": 30, "compact": 1, "snap": 4, "snapread": 8, "snapclose": 1,
		"iternew": 10, "iterop": 26, "iterclose": 3, "scan": 6},
	OpW: map[string]int{"set": 28, "del": 8, "merge": 4, "delrange": 14, "sdel": 3, "delsized": 2},
	Opt: func(t *rapid.T, o *OptPlan) {
		o.DisableAutoCompaction = true
		o.TargetFileSize = rapid.SampledFrom([]int64{64, 256}).Draw(t, "c33tfs")
		o.BlockSize = rapid.SampledFrom([]int{1, 32, 128}).Draw(t, "c33bs")
	},
}

func TestC33(t *testing.T) {
	dbCheck(t, "C33", profLevels,
		"with automatic compactions disabled a multi-level LSM is constructed through the public API: tables ingested bottom-up (non-overlapping ones land in L6, overlapping ones above), several files per level with gaps, range deletions spanning file boundaries and shadowing lower levels, then flushes (L0 sublevels) and a live memtable, with snapshots between the stages; point iterators (the mergingIter/levelIter stack) at each snapshot and at the latest state receive seek/step/direction-switch sequences with drawn bounds and prefix seeks and are compared with the model at their read sequence number. "+
			"non-trivial = at least 3 non-empty levels existed, a range deletion was written and >= 20 iterator ops ran; distinct = hash of plan JSON",
		250, 2000,
		func(res Result, ls []string) bool {
			return res.C["max-nonempty-levels"] >= 3 && hasLabel(ls, "op=delrange") && res.C["iterops"] >= 20
		}, nil)
}

var profValSep = Profile{
	Name: "valsep", BlobIngestPct: 35, MinSteps: 12, MaxSteps: 55, IterOpsMax: 6, MaxIters: 2, MaxSnaps: 1, DurableIngest: true,
	W: map[string]int{"write": 34, "batch": 12, "flush": 9, "compact": 8, "wait": 5, "get": 10, "scan": 10, "restart": 2, "ingest": 2,
		"iternew": 3, "iterop": 6, "iterclose": 1, "snap": 1, "snapread": 2, "snapclose": 1, "crashrestart": 1},
	OpW: map[string]int{"set": 50, "del": 6, "merge": 6, "delrange": 3, "sdel": 2, "delsized": 2, "rkset": 2},
	CrashGen: func(t *rapid.T, o OptPlan) *CrashPlan {
		cp := crashGen(25)(t, o)
		cp.MaxImages, cp.Hot = 60, 7
		return cp
	},
	Opt: func(t *rapid.T, o *OptPlan) {
		if o.FMV < int(pebble.FormatValueSeparation) {
			o.FMV = rapid.SampledFrom([]int{int(pebble.FormatValueSeparation), int(pebble.FormatV2BlobFiles), int(pebble.FormatNewest)}).Draw(t, "c44fmv")
		}
		o.ValSep = true
		o.ValSepMinSize = rapid.SampledFrom([]int{4, 10, 32, 64}).Draw(t, "c44min")
		o.ValSepDepth = rapid.IntRange(1, 5).Draw(t, "c44depth")
		o.ValSepGarbageLow = rapid.SampledFrom([]int{5, 30, 100}).Draw(t, "c44glow")
		o.DisableWAL = false
	},
}

func TestC44(t *testing.T) {
	handlePct = 10
	defer func() { handlePct = 0 }()
	crashCheck(t, "C44", profValSep,
		"value separation enabled with drawn thresholds (MinimumSize 4-64, MVCC-garbage size, reference depth 1-5, rewrite age 0, garbage ratios that force blob-file rewrites), values of 0-5000 bytes straddling the thresholds (older versions of a prefix are likely MVCC garbage), flushes, compactions, restarts, snapshots and crash images/crash-and-continue; every value read through Get, Iterator.Value, ValueAndErr and LazyValue().Value() must equal the model bytes, before and after each maintenance step and after recovery. "+
			"non-trivial = blob files were live at some point and a compaction happened while values were compared afterwards; distinct = hash of plan JSON",
		120, 1000,
		func(res Result, ls []string) bool {
			return hasLabel(ls, "blob-files-live") && anyLabel(ls, "compaction=")
		})
}

var profLevelInv = Profile{
	Name: "levels", MinSteps: 20, MaxSteps: 70, DurableIngest: false, BigValues: true,
	W:   map[string]int{"write": 30, "batch": 10, "bigbatch": 2, "flush": 10, "compact": 6, "wait": 8, "ingest": 16, "ingestexcise": 5, "excise": 4, "restart": 1, "snap": 2, "snapclose": 1},
	OpW: opWDefault, MaxSnaps: 2,
	Opt: func(t *rapid.T, o *OptPlan) {
		o.CheckLevels = true
		o.MemTableSize = rapid.SampledFrom([]int{4 << 10, 8 << 10}).Draw(t, "c15mem")
		o.TargetFileSize = rapid.SampledFrom([]int64{64, 256}).Draw(t, "c15tfs")
		if o.NumDel == 0 || rapid.Bool().Draw(t, "c15score") {
			// score-based compactions dominate; otherwise the drawn "low priority"
			// configuration (tombstone-density / read-triggered picks) is kept
			o.L0CompactionFiles = 500
			o.LBaseMaxBytes = rapid.SampledFrom([]int64{256, 1 << 10}).Draw(t, "c15lbase")
			o.L0Compaction = rapid.IntRange(2, 4).Draw(t, "c15l0c")
		}
		o.ConcurrencyMax = rapid.IntRange(1, 4).Draw(t, "c15conc")
		if o.FMV < int(pebble.FormatVirtualSSTables) && rapid.IntRange(0, 2).Draw(t, "c15fmv") > 0 {
			o.FMV = int(pebble.FormatNewest)
		}
	},
}

func TestC15(t *testing.T) {
	dbCheck(t, "C15", profLevelInv,
		"histories biased to ingests that slot into low levels, flushable ingests, IngestSplit, excises, intra-L0 and multi-level compactions (small L0 thresholds, concurrency 1-4); Options.DebugCheck = DebugCheckLevels runs on every version install; after every structural step DB.CheckLevels must return nil and an independent checker over DebugCurrentVersion() + the tables' contents (read with sstable.Reader) verifies: per-level / per-sublevel ordering and disjointness, sublevel order by seqnum for overlapping L0 tables, every key inside its table's recorded bounds and sequence range, and for every user key all versions at a higher LSM position newer than those below. "+
			"non-trivial = >= 3 non-empty levels and >= 2 L0 sublevels occurred and an ingest happened, with >= 1 independent check executed; distinct = hash of plan JSON",
		150, 800,
		func(res Result, ls []string) bool {
			return res.C["max-nonempty-levels"] >= 3 && res.C["max-l0-sublevels"] >= 2 && res.C["ingests"] > 0 && res.C["levelchecks"] > 0
		}, nil)
}

var profFiles = Profile{
	Name: "files", MinSteps: 15, MaxSteps: 60, IterOpsMax: 4, MaxIters: 3, MaxSnaps: 2, MaxEFOS: 1, BigValues: true,
	W: map[string]int{"write": 30, "batch": 10, "flush": 8, "compact": 7, "wait": 12, "ingest": 4, "ingestexcise": 2, "excise": 2, "restart": 3,
		"iternew": 6, "iterop": 8, "iterclose": 6, "snap": 3, "snapread": 3, "snapclose": 3, "efos": 1, "efosread": 2, "efosclose": 1},
	OpW: opWDefault,
	Opt: func(t *rapid.T, o *OptPlan) {
		o.FilesCheck = true
		o.MemTableSize = rapid.SampledFrom([]int{4 << 10, 8 << 10}).Draw(t, "c39mem")
		if rapid.Bool().Draw(t, "c39vs") {
			// blob files that accumulate garbage and get rewritten while readers pin old versions
			o.FMV = rapid.SampledFrom([]int{int(pebble.FormatValueSeparation), int(pebble.FormatV2BlobFiles), int(pebble.FormatNewest), int(pebble.FormatNewest)}).Draw(t, "c39fmv")
			o.ValSep, o.ValSepMinSize, o.ValSepDepth = true, rapid.SampledFrom([]int{4, 10}).Draw(t, "c39vsmin"), rapid.IntRange(1, 3).Draw(t, "c39vsd")
			o.ValSepGarbageLow = rapid.SampledFrom([]int{1, 5, 30}).Draw(t, "c39vsg")
		}
	},
}

func TestC39(t *testing.T) {
	dbCheck(t, "C39", profFiles,
		"histories with iterators, snapshots and EFOS held across flushes, compactions, excises and restarts; at every quiescent point ('wait' / after restart; synctest.Wait drains the obsolete-file cleaner) the store directory is compared with the current version: (live) every referenced table backing and blob file exists, and all reads through held readers keep succeeding (C04 oracle); (dead) when no reader is open: no table/blob file outside the version remains, MANIFESTs <= 1+NumPrevManifest, exactly one OPTIONS, WAL files within the recycling bound; also after Close+reopen. "+
			"non-trivial = a table became a zombie (pinned by a reader) during the case and a dead-files check ran after the readers were closed; distinct = hash of plan JSON",
		150, 1000,
		func(res Result, ls []string) bool {
			return hasLabel(ls, "zombie-tables") && res.C["files-dead-checks"] > 0 && hasLabel(ls, "tables-deleted")
		}, nil)
}

var profClose = Profile{
	Name: "close", MinSteps: 10, MaxSteps: 50, IterOpsMax: 4, MaxIters: 3, MaxSnaps: 2, MaxBatches: 2, MaxEFOS: 1,
	W: map[string]int{"write": 30, "batch": 10, "bigbatch": 1, "flush": 6, "compact": 5, "wait": 3, "ingest": 4, "excise": 1, "restart": 2, "get": 4, "scan": 4,
		"iternew": 6, "iterop": 8, "iterclose": 3, "snap": 3, "snapread": 3, "snapclose": 2, "ibnew": 2, "ibop": 4, "ibcommit": 1, "ibclose": 1, "efos": 1, "efosread": 1, "efosclose": 1},
	OpW: opWDefault,
}

func TestC47(t *testing.T) {
	InBubble = true
	evid.Run(t, evid.Spec[Plan]{
		ID: "C47", Level: "exploration", Bubble: true,
		Rule: "arbitrary histories with iterators, snapshots, EFOS and indexed batches left open at the end; the harness closes every handle and then the DB on a file system that counts open handles, with an explicit shared block cache: Close()==nil; open-file count returns to 0; the number of goroutines returns to the pre-Open value (after synctest.Wait); after cache.Unref the manually managed memory (block cache data and map, memtables; cache entries are pooled and excluded) returns to the pre-Open baseline; the directory reopens to the model state and closes cleanly again. Negative control (once per run): Close with a leaked iterator returns an error. " +
			"non-trivial = the history produced a compaction and used at least one snapshot and one iterator that were still open when the harness started closing; distinct = hash of plan JSON",
		Assumptions: commonAssumptions,
		Gen:         func(t *rapid.T) Plan { return Generate(t, profClose) },
		Exec: func(p Plan) (evid.Outcome, error) {
			res, err := RunPlanClose(p)
			out := res.Outcome()
			out.NonTrivial = anyLabel(out.Labels, "compaction=") && res.C["snapshots"] > 0 && res.C["iters"] > 0 && res.C["close-checks"] > 0
			return out, err
		},
		Quick: 200, Thorough: 1500,
		Sample: func(p Plan) any { return p.Summary() },
	})
	if err := leakedIteratorControl(); err != nil {
		t.Errorf("VIOLATION-CONTROL: %v", err)
	}
}

var profMaint = Profile{
	Name: "maintenance", MinSteps: 18, MaxSteps: 70, IterOpsMax: 5, MaxIters: 3, MaxSnaps: 3, MaxEFOS: 1, MaxBatches: 1, BigValues: true,
	W: map[string]int{"write": 30, "batch": 10, "bigbatch": 1, "ingest": 5, "ingestexcise": 2, "excise": 2, "snap": 6, "snapclose": 2, "efos": 2, "efosclose": 1,
		"iternew": 7, "iterop": 8, "iterclose": 2, "ibnew": 1, "ibop": 2, "ibclose": 1, "maint": 18, "restart": 1},
	OpW: map[string]int{"set": 30, "del": 10, "merge": 6, "delrange": 10, "sdel": 5, "delsized": 4, "rkset": 6, "rkunset": 3, "rkdel": 2},
	Opt: func(t *rapid.T, o *OptPlan) {
		o.MemTableSize = rapid.SampledFrom([]int{4 << 10, 8 << 10, 32 << 10}).Draw(t, "c14mem")
		o.TargetFileSize = rapid.SampledFrom([]int64{64, 256, 1 << 10}).Draw(t, "c14tfs")
		o.LBaseMaxBytes = rapid.SampledFrom([]int64{256, 1 << 10, 8 << 10}).Draw(t, "c14lbase")
		o.ConcurrencyMax = rapid.IntRange(1, 3).Draw(t, "c14conc")
		o.DisableAutoCompaction = rapid.IntRange(0, 9).Draw(t, "c14noauto") == 0
		if o.FMV >= int(pebble.FormatValueSeparation) && rapid.Bool().Draw(t, "c14vs") {
			o.ValSep, o.ValSepMinSize, o.ValSepDepth, o.ValSepGarbageLow = true, rapid.SampledFrom([]int{4, 10, 32}).Draw(t, "c14vsmin"), rapid.IntRange(1, 3).Draw(t, "c14vsd"), rapid.SampledFrom([]int{1, 5, 30}).Draw(t, "c14vsg")
		}
	},
}

// maintKinds are the kinds of background work the C14 statement lists that this
// engine can provoke (copy and download compactions need remote storage and are
// reported as not covered).
var maintKinds = []string{"flush", "default", "move", "delete-only", "elision-only", "intra-L0", "blob-file-rewrite", "virtual-sst-rewrite", "rewrite", "multilevel", "ingested-flushable"}

func TestC14(t *testing.T) {
	InBubble = true
	var mu sync.Mutex
	seen := map[string]int{}
	evid.Run(t, evid.Spec[Plan]{
		ID: "C14", Level: "exploration", Bubble: true,
		Rule: "histories (writes, batches, ingests, excises) with up to 3 snapshots, an EFOS, an indexed batch and up to 3 positioned iterators open; at 'maint' steps a digest of everything every open reader shows (latest full scan, each snapshot, each EFOS range, a Clone of each open iterator; forward and reverse transcripts with values and range keys) is taken, one maintenance operation runs (Flush; Compact whole/partial, parallel or not; wait for automatic compactions; RatchetFormatMajorVersion; close the oldest snapshot and wait, which unblocks elision-only/delete-only compactions) followed by quiescence (synctest.Wait), and the digest is taken again: both digests must be identical and equal to the model transcripts. " +
			"non-trivial = a compaction or flush finished between the two digests of some maint step while at least one snapshot, EFOS or iterator was open; distinct = hash of plan JSON. counters maint-kind=<kind> give the number of finished jobs per kind between digests; kinds never observed in a run are listed in coverage.kinds_missing (copy/download compactions need remote storage and are not generated)",
		Assumptions: commonAssumptions,
		Gen:         func(t *rapid.T) Plan { return Generate(t, profMaint) },
		Exec: func(p Plan) (evid.Outcome, error) {
			res, err := RunPlan(p, nil)
			out := res.Outcome()
			out.NonTrivial = res.C["maint-with-work-and-readers"] > 0
			mu.Lock()
			for k, v := range res.C {
				if strings.HasPrefix(k, "maint-kind-with-readers=") {
					seen[strings.TrimPrefix(k, "maint-kind-with-readers=")] += v
				}
			}
			mu.Unlock()
			return out, err
		},
		Quick: 400, Thorough: 1500,
		Sample: func(p Plan) any { return p.Summary() },
		ExtraCoverage: func() map[string]any {
			mu.Lock()
			defer mu.Unlock()
			var missing []string
			for _, k := range maintKinds {
				if seen[k] == 0 {
					missing = append(missing, k)
				}
			}
			missing = append(missing, "copy (not generated)", "download (not generated)")
			return map[string]any{"kinds_seen_with_readers_open": seen, "kinds_missing": missing}
		},
	})
}

var profScanInternal = Profile{
	Name: "scaninternal", MinSteps: 12, MaxSteps: 55, IterOpsMax: 4, MaxSnaps: 2, MaxEFOS: 1, MaxIters: 1, NoMergeSdel: true,
	W: map[string]int{"write": 30, "batch": 12, "flush": 8, "compact": 4, "wait": 3, "ingest": 4, "ingestexcise": 1, "excise": 1, "snap": 4, "snapclose": 1, "efos": 2, "efosclose": 1,
		"scaninternal": 22, "scan": 3, "restart": 1},
	OpW: map[string]int{"set": 26, "del": 10, "merge": 12, "delrange": 10, "sdel": 5, "delsized": 4, "rkset": 12, "rkunset": 6, "rkdel": 4},
}

func TestC45(t *testing.T) {
	dbCheck(t, "C45", profScanInternal,
		"histories of Set/Delete/DeleteSized/DeleteRange/range-key writes, batches, flushes, compactions, ingests, excises (no Merge or SingleDelete: scan_internal.go documents that the point-collapsing iterator must not be used on keyspaces holding them and panics by design; the metamorphic test disables them for its replicate op likewise); ScanInternal over drawn spans on the DB, on snapshots and on EFOS (inside their ranges); the visitor output (point internal keys with kind, range deletions, range-key spans) is written with sstable.Writer (sequence number 0, same kinds) and ingested into an empty DB with the same comparer; the destination's complete visible state must equal the model at the scan's version restricted to the span; additionally at most one point per user key, increasing order, no returned point covered by a returned newer range deletion, spans truncated to the bounds. "+
			"non-trivial = some scan returned a tombstone or range deletion together with a range key over a non-empty span, with data flushed; distinct = hash of plan JSON",
		300, 1500,
		func(res Result, ls []string) bool {
			return res.C["scaninternal-rich"] > 0 && hasLabel(ls, "flushed")
		}, nil)
}
