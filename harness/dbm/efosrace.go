package dbm

import (
	"fmt"
	"sync"
	"time"

	"github.com/cockroachdb/pebble"
)

// efosRace creates an EventuallyFileOnlySnapshot *while* an excise (DB.Excise or
// DB.IngestAndExcise) is between "prepared" and "published": the hook fires at
// the first MANIFEST write after the excising call started, i.e. normally the
// version edit of the excise itself (d.mu is released during that write). The
// creation runs on its own goroutine, because Pebble makes it wait for an
// overlapping in-flight excise; the hook gives it a moment to reach that wait
// and then lets the excise proceed.
//
// Oracle: the creation is concurrent with the excise, so the snapshot may show
// the state before or the state after it (C37: "the state as of creation") -
// but it must be exactly one of the two in every protected range, now and after
// the transition to file-only. Which one is decided by reading; the handle is
// then registered like any other EFOS and keeps being read by later steps.
type efosRace struct {
	r      *Runner
	id     int
	spans  [][2]string
	pre    int
	mu     sync.Mutex
	fired  bool
	done   chan *pebble.EventuallyFileOnlySnapshot
	waited bool
}

// startEFOSRace arms the race for an excising step that carries Spans/ID2.
// Returns nil (all methods are nil-safe) when the step has none.
func (r *Runner) startEFOSRace(s Step) *efosRace {
	if len(s.Spans) == 0 || s.ID2 == 0 || r.efos[s.ID2] != nil {
		return nil
	}
	e := &efosRace{r: r, id: s.ID2, spans: s.Spans, pre: len(r.Versions) - 1,
		done: make(chan *pebble.EventuallyFileOnlySnapshot, 1)}
	var krs []pebble.KeyRange
	for _, sp := range s.Spans {
		krs = append(krs, pebble.KeyRange{Start: []byte(sp[0]), End: []byte(sp[1])})
	}
	db := r.DB
	r.fsHook = func(kind, path string) {
		if kind != "manifest-write" {
			return
		}
		e.mu.Lock()
		fire := !e.fired
		e.fired = true
		e.mu.Unlock()
		if !fire {
			return
		}
		res := make(chan *pebble.EventuallyFileOnlySnapshot, 1)
		go func() { res <- db.NewEventuallyFileOnlySnapshot(krs) }()
		select {
		case s := <-res:
			e.done <- s
		case <-time.After(300 * time.Microsecond):
			e.mu.Lock()
			e.waited = true
			e.mu.Unlock()
			go func() { e.done <- <-res }()
		}
	}
	return e
}

// abandon: the excising call failed; release whatever was created.
func (e *efosRace) abandon() {
	if e == nil {
		return
	}
	e.r.fsHook = nil
	e.mu.Lock()
	fired := e.fired
	e.fired = true
	e.mu.Unlock()
	if fired {
		if s := <-e.done; s != nil {
			_ = s.Close()
		}
	}
}

// resolve is called after the excising step was pushed onto the model history.
func (e *efosRace) resolve(what string) error {
	if e == nil {
		return nil
	}
	r := e.r
	r.fsHook = nil
	e.mu.Lock()
	fired := e.fired
	e.fired = true // a late hook call must not start a creation any more
	e.mu.Unlock()
	if !fired {
		r.C["efos-race-not-fired"]++
		return nil
	}
	snap := <-e.done
	post := len(r.Versions) - 1
	h := &efosH{s: snap, ver: post, ranges: e.spans}
	r.efos[e.id] = h
	r.C["efos"]++
	r.C["efos-created-during-excise"]++
	if e.waited {
		r.C["efos-creation-waited-for-excise"]++
		r.L["efos-creation-waited-for-excise"] = true
	}
	check := func() error {
		rd := r.reader("efos", e.id)
		for _, sp := range e.spans {
			for _, rev := range []bool{false, true} {
				if err := r.scan(rd, IterOpts{KT: KTBoth, Lower: sp[0], Upper: sp[1]}, rev); err != nil {
					return err
				}
			}
		}
		return nil
	}
	errPost := check()
	if errPost == nil {
		r.C["efos-race-saw-post"]++
		return nil
	}
	h.ver = e.pre
	errPre := check()
	if errPre == nil {
		r.C["efos-race-saw-pre"]++
		return nil
	}
	return fmt.Errorf("EFOS#%d over %v created while %s was in flight shows neither the state before nor the state after it: vs after: %v; vs before: %v",
		e.id, e.spans, what, errPost, errPre)
}
