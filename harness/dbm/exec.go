package dbm

import (
	"bytes"
	"context"
	"fmt"
	"os"
	"sort"
	"strings"
	"sync"
	"sync/atomic"
	"time"

	"github.com/cockroachdb/errors"
	"github.com/cockroachdb/pebble"
	"github.com/cockroachdb/pebble/internal/testkeys"
	"github.com/cockroachdb/pebble/objstorage"
	"github.com/cockroachdb/pebble/objstorage/objstorageprovider"
	"github.com/cockroachdb/pebble/sstable"
	"github.com/cockroachdb/pebble/sstable/colblk"
	"github.com/cockroachdb/pebble/sstable/tablefilters/binaryfuse"
	"github.com/cockroachdb/pebble/sstable/tablefilters/bloom"
	"github.com/cockroachdb/pebble/valsep"
	"github.com/cockroachdb/pebble/vfs"
	"github.com/cockroachdb/pebble/wal"
)

// ---------------------------------------------------------------- options

// recLogger records Fatalf calls; Pebble calls Fatalf when it cannot continue
// (e.g. MANIFEST write failure). Without fault injection that is a violation.
type recLogger struct {
	mu     sync.Mutex
	fatals []string
	infos  int
}

func (l *recLogger) Infof(format string, args ...interface{})  { l.mu.Lock(); l.infos++; l.mu.Unlock() }
func (l *recLogger) Errorf(format string, args ...interface{}) {}
func (l *recLogger) Fatalf(format string, args ...interface{}) {
	l.mu.Lock()
	l.fatals = append(l.fatals, fmt.Sprintf(format, args...))
	l.mu.Unlock()
	panic("pebble Fatalf: " + fmt.Sprintf(format, args...))
}

var compressionProfiles = []func() pebble.DBCompressionSettings{
	func() pebble.DBCompressionSettings { return pebble.DBCompressionNone },
	func() pebble.DBCompressionSettings {
		return pebble.UniformDBCompressionSettings(sstable.SnappyCompression)
	},
	func() pebble.DBCompressionSettings {
		return pebble.UniformDBCompressionSettings(sstable.ZstdCompression)
	},
	func() pebble.DBCompressionSettings {
		return pebble.UniformDBCompressionSettings(sstable.MinLZCompression)
	},
	func() pebble.DBCompressionSettings { return pebble.DBCompressionFastest },
	func() pebble.DBCompressionSettings { return pebble.DBCompressionBalanced },
}

// NumCompression / NumFilter are the sizes of the drawn enumerations.
const (
	NumCompression = 6
	NumFilter      = 6
)

func filterPolicy(i int) pebble.DBTableFilterPolicy {
	switch i {
	case 1:
		return pebble.UniformDBTableFilterPolicy(bloom.FilterPolicy(10))
	case 2:
		return pebble.UniformDBTableFilterPolicy(bloom.FilterPolicy(2))
	case 3:
		return pebble.UniformDBTableFilterPolicy(binaryfuse.FilterPolicy(8))
	case 4:
		return pebble.DBTableFilterPolicyProgressive
	case 5:
		return pebble.UniformDBTableFilterPolicy(bloom.AdaptivePolicy(10, 128))
	}
	return pebble.UniformDBTableFilterPolicy(pebble.NoFilterPolicy)
}

// BuildOptions turns an OptPlan into pebble.Options over fs.
func BuildOptions(op OptPlan, fs vfs.FS, el *pebble.EventListener, lg pebble.Logger) *pebble.Options {
	bundle := op.BundleSize
	if bundle <= 0 {
		bundle = 16
	}
	ks := colblk.DefaultKeySchema(testkeys.Comparer, bundle)
	o := &pebble.Options{
		FS:                          fs,
		Comparer:                    testkeys.Comparer,
		KeySchema:                   ks.Name,
		KeySchemas:                  sstable.MakeKeySchemas(&ks),
		FormatMajorVersion:          pebble.FormatMajorVersion(op.FMV),
		MemTableSize:                uint64(op.MemTableSize),
		MemTableStopWritesThreshold: op.MemStop,
		L0CompactionThreshold:       op.L0Compaction,
		L0CompactionFileThreshold:   op.L0CompactionFiles,
		L0StopWritesThreshold:       1000,
		LBaseMaxBytes:               op.LBaseMaxBytes,
		MaxManifestFileSize:         op.MaxManifest,
		DisableWAL:                  op.DisableWAL,
		DisableAutomaticCompactions: op.DisableAutoCompaction,
		FlushSplitBytes:             op.FlushSplitBytes,
		CacheSize:                   op.CacheSize,
		Logger:                      lg,
		EventListener:               el,
		BlockPropertyCollectors:     []func() pebble.BlockPropertyCollector{sstable.NewTestKeysBlockPropertyCollector},
	}
	if o.CacheSize == 0 {
		o.CacheSize = 1 << 20
	}
	if op.WALDir {
		o.WALDir = "walz"
	}
	for i := range o.TargetFileSizes {
		o.TargetFileSizes[i] = op.TargetFileSize
	}
	for i := range o.Levels {
		o.Levels[i].BlockSize = op.BlockSize
		o.Levels[i].IndexBlockSize = op.IndexBlockSize
		o.Levels[i].BlockRestartInterval = op.RestartInterval
	}
	cs := compressionProfiles[op.Compression%len(compressionProfiles)]()
	o.ApplyCompressionSettings(func() pebble.DBCompressionSettings { return cs })
	fp := filterPolicy(op.Filter)
	o.ApplyTableFilterPolicy(func() pebble.DBTableFilterPolicy { return fp })
	cmax := op.ConcurrencyMax
	if cmax < 1 {
		cmax = 1
	}
	o.CompactionConcurrencyRange = func() (int, int) { return 1, cmax }
	if op.ValSep {
		pol := pebble.ValueSeparationPolicy{
			Enabled:                  true,
			MinimumSize:              max(1, op.ValSepMinSize),
			MinimumMVCCGarbageSize:   max(1, op.ValSepMinSize/2),
			MaxBlobReferenceDepth:    max(1, op.ValSepDepth),
			RewriteMinimumAge:        0,
			GarbageRatioLowPriority:  float64(op.ValSepGarbageLow) / 100,
			GarbageRatioHighPriority: min(1.0, float64(op.ValSepGarbageLow)/100+0.2),
		}
		o.ValueSeparationPolicy = func() pebble.ValueSeparationPolicy { return pol }
	} else {
		o.ValueSeparationPolicy = func() pebble.ValueSeparationPolicy { return pebble.ValueSeparationPolicy{} }
	}
	dif, is, doe, vb := op.DisableIngestFlush, op.IngestSplit, op.DelOnlyExcise, op.ValueBlocks
	o.DisableIngestAsFlushable = func() bool { return dif }
	o.IngestSplit = func() bool { return is }
	o.EnableDeleteOnlyCompactionExcises = func() bool { return doe }
	o.EnableValueBlocks = func() bool { return vb }
	switch op.MultiLevel {
	case 1:
		o.MultiLevelCompactionHeuristic = pebble.OptionNoMultiLevel
	case 2:
		h := &pebble.WriteAmpHeuristic{AddPropensity: 2.0, AllowL0: true}
		o.MultiLevelCompactionHeuristic = func() pebble.MultiLevelHeuristic { return h }
	}
	if op.CheckLevels {
		o.DebugCheck = pebble.DebugCheckLevels
	}
	if op.NumDel > 0 {
		o.NumDeletionsThreshold = op.NumDel
	}
	if op.TombDense > 0 {
		td := float64(op.TombDense) / 100
		o.TombstoneDenseCompactionThreshold = func() float64 { return td }
	}
	if op.FlushDelayMs > 0 {
		o.FlushDelayDeleteRange = time.Duration(op.FlushDelayMs) * time.Millisecond
		o.FlushDelayRangeKey = time.Duration(op.FlushDelayMs) * time.Millisecond
	}
	if op.ReadSampling != 0 {
		o.ReadSamplingMultiplier = int64(op.ReadSampling)
	}
	o.EnsureDefaults()
	return o
}

// ---------------------------------------------------------------- runner

type snapH struct {
	s       *pebble.Snapshot
	ver     int
	excised [][2]string // excises applied after the snapshot was taken
}

type efosH struct {
	s      *pebble.EventuallyFileOnlySnapshot
	ver    int
	ranges [][2]string
}

type batchH struct {
	b   *pebble.Batch
	ops []Op
}

const (
	stUnpos = iota
	stValid
	stExhFwd
	stExhBack
	stLimFwd
	stLimBack
)

type rangeState struct {
	has        bool
	start, end string
	keys       string
}

type iterH struct {
	it      *pebble.Iterator
	m       *IterModel
	base    *State // DB view at creation (without batch)
	batch   *batchH
	st      int
	cur     Pos
	pending Pos
	prevRS  rangeState
	created int // step index
	nops    int
	// expErr is set while the iterator carries a documented, expected error
	// (SeekPrefixGE outside the bounds); Close returns it.
	expErr bool
	// snap / ef: the snapshot or EFOS the iterator was created on (their read
	// restrictions apply to the iterator for its whole life, also after the
	// snapshot handle is closed).
	snap *snapH
	ef   *efosH
}

// closeIter closes h.it; an expected accumulated error is not a violation.
func closeIter(h *iterH) error {
	err := h.it.Close()
	if err != nil && h.expErr && strings.Contains(err.Error(), "SeekPrefixGE supplied with key outside of") {
		return nil
	}
	return err
}

// Events collected from the EventListener.
type Events struct {
	mu            sync.Mutex
	Flushes       int
	Compactions   map[string]int
	TablesDeleted int
	Ingested      int
	FlushableIng  int
	BGErrors      []string
	Misuse        []string
	ManifestNew   int
	WALNew        int
	Stalls        int
	// Trace, if non-nil, receives one line per event (debugging aid).
	Trace *[]string
}

func (e *Events) trace(format string, args ...any) {
	if e.Trace != nil {
		e.mu.Lock()
		*e.Trace = append(*e.Trace, fmt.Sprintf(format, args...))
		e.mu.Unlock()
	}
}

// Runner executes a plan against a real DB and the model.
type Runner struct {
	Plan     *Plan
	FS       vfs.FS
	Dir      string
	Opts     *pebble.Options
	DB       *pebble.DB
	Versions []*State
	Ev       *Events
	Log      *recLogger

	snaps   map[int]*snapH
	efos    map[int]*efosH
	iters   map[int]*iterH
	batches map[int]*batchH
	sd      map[string]*sdState // single-delete contract tracking
	extN    int

	// Wait is called for "wait" steps and after steps that request quiescence.
	Wait func()

	// vmu protects Versions, Durable and Pending: crash images are taken from
	// file-system callbacks on arbitrary goroutines.
	vmu sync.Mutex
	// Durable is the index of the newest version that is guaranteed to survive a
	// crash (every acknowledged-durable operation is <= it).
	Durable int
	// Pending is the version the in-flight mutating operation will produce.
	Pending *State
	// FMVDurable / FMVPending: format major version that a crash must at least
	// recover, and the target of an in-flight ratchet (0 = none).
	FMVDurable, FMVPending int

	crash *crasher
	ckptN int
	// OptHook may adjust the options before every Open.
	OptHook func(*pebble.Options)
	// WAL location: walCur is the current WAL directory ("" = the store
	// directory), walOld the directories used earlier in this history (they are
	// listed in Options.WALRecoveryDirs on every later Open, as the option's
	// documentation requires); walInit says the fields are initialized.
	sfs     *schedFS
	walCur  string
	walOld  []string
	walInit bool

	// fsHook, if set, is called (on the goroutine performing the operation)
	// before the DB creates a directory or file or links a file. Only set and
	// cleared by the foreground while no background work can race with it being
	// read in a harmful way (a stale read just skips or repeats a no-op).
	fsHook func(kind, path string)

	// counters for evidence / non-triviality
	C map[string]int
	L map[string]bool

	stepIdx int
	// stepA mirrors stepIdx for goroutines other than the foreground.
	stepA atomic.Int64
}

type sdState struct {
	sets   int
	merged bool
}

func NewEvents() *Events { return &Events{Compactions: map[string]int{}} }

func (e *Events) Listener() *pebble.EventListener {
	return &pebble.EventListener{
		BackgroundError: func(err error) {
			// A compaction cancelled by a concurrent excise/ingest is retried and
			// reported for information only (pebble.ErrCancelledCompaction).
			if errors.Is(err, pebble.ErrCancelledCompaction) {
				return
			}
			e.mu.Lock()
			e.BGErrors = append(e.BGErrors, err.Error())
			e.mu.Unlock()
		},
		CompactionBegin: func(ci pebble.CompactionInfo) { e.trace("%s", ci.String()) },
		FlushBegin:      func(fi pebble.FlushInfo) { e.trace("%s", fi.String()) },
		TableCreated:    func(ti pebble.TableCreateInfo) { e.trace("%s", ti.String()) },
		CompactionEnd: func(ci pebble.CompactionInfo) {
			e.trace("%s", ci.String())
			e.mu.Lock()
			if ci.Err == nil {
				e.Compactions[ci.Reason]++
				intra := ci.Output.Level == 0 && len(ci.Input) > 0
				for _, in := range ci.Input {
					if in.Level != 0 {
						intra = false
					}
				}
				if intra && ci.Reason == "default" {
					e.Compactions["intra-L0"]++
				}
				if len(ci.Input) > 2 {
					e.Compactions["multilevel"]++
				}
			}
			e.mu.Unlock()
		},
		BlobFileRewriteEnd: func(bi pebble.BlobFileRewriteInfo) {
			e.trace("%s", bi.String())
			e.mu.Lock()
			if bi.Err == nil {
				e.Compactions["blob-file-rewrite"]++
			}
			e.mu.Unlock()
		},
		FlushEnd: func(fi pebble.FlushInfo) {
			e.trace("%s", fi.String())
			e.mu.Lock()
			e.Flushes++
			if fi.Ingest {
				e.FlushableIng++
			}
			e.mu.Unlock()
		},
		TableDeleted: func(ti pebble.TableDeleteInfo) {
			e.trace("%s", ti.String())
			e.mu.Lock()
			e.TablesDeleted++
			e.mu.Unlock()
		},
		TableIngested: func(pebble.TableIngestInfo) {
			e.mu.Lock()
			e.Ingested++
			e.mu.Unlock()
		},
		ManifestCreated: func(pebble.ManifestCreateInfo) {
			e.mu.Lock()
			e.ManifestNew++
			e.mu.Unlock()
		},
		WALCreated: func(pebble.WALCreateInfo) {
			e.mu.Lock()
			e.WALNew++
			e.mu.Unlock()
		},
		WriteStallBegin: func(pebble.WriteStallBeginInfo) {
			e.mu.Lock()
			e.Stalls++
			e.mu.Unlock()
		},
		PossibleAPIMisuse: func(info pebble.PossibleAPIMisuseInfo) {
			e.mu.Lock()
			e.Misuse = append(e.Misuse, fmt.Sprintf("%v %s", info.Kind, info.UserKey))
			e.mu.Unlock()
		},
	}
}

func (e *Events) snapshotCounts() (flushes, compactions, deleted int) {
	e.mu.Lock()
	defer e.mu.Unlock()
	c := 0
	for _, v := range e.Compactions {
		c += v
	}
	return e.Flushes, c, e.TablesDeleted
}

// NewRunner creates a runner over fs (the DB is not opened yet).
func NewRunner(p *Plan, fs vfs.FS) *Runner {
	r := &Runner{Plan: p, FS: fs, Dir: "db", Ev: NewEvents(), Log: &recLogger{},
		snaps: map[int]*snapH{}, efos: map[int]*efosH{}, iters: map[int]*iterH{}, batches: map[int]*batchH{},
		sd: map[string]*sdState{}, C: map[string]int{}, L: map[string]bool{}, Wait: func() {}}
	r.Versions = []*State{NewState()}
	return r
}

func (r *Runner) Latest() *State { return r.Versions[len(r.Versions)-1] }

// begin announces the version the operation about to run will produce.
func (r *Runner) begin(next *State) {
	r.vmu.Lock()
	r.Pending = next
	r.vmu.Unlock()
}

// abort withdraws the announcement (the operation failed).
func (r *Runner) abort() {
	r.vmu.Lock()
	r.Pending = nil
	r.vmu.Unlock()
}

// push records the pending (or given) version as committed. durable says that
// the operation's return guarantees durability of itself and all earlier ones.
func (r *Runner) push(s *State, durable bool) {
	r.vmu.Lock()
	r.Versions = append(r.Versions, s)
	r.Pending = nil
	if durable {
		r.Durable = len(r.Versions) - 1
	}
	r.vmu.Unlock()
}

// markDurable records that everything committed so far is durable.
func (r *Runner) markDurable() {
	r.vmu.Lock()
	r.Durable = len(r.Versions) - 1
	r.vmu.Unlock()
}

// Candidates returns the versions a crash right now may recover: every version
// from Durable to the latest, plus the pending one.
func (r *Runner) Candidates() (lo int, vs []*State) {
	r.vmu.Lock()
	defer r.vmu.Unlock()
	vs = append(vs, r.Versions[r.Durable:]...)
	if r.Pending != nil {
		vs = append(vs, r.Pending)
	}
	return r.Durable, vs
}

// candidatesFrom returns the versions from index lo to the latest plus the
// pending one. After a crash-and-continue reset (the version list restarts) it
// returns everything.
func (r *Runner) candidatesFrom(lo int) (vs []*State) {
	r.vmu.Lock()
	defer r.vmu.Unlock()
	if lo >= len(r.Versions) {
		lo = 0
	}
	vs = append(vs, r.Versions[lo:]...)
	if r.Pending != nil {
		vs = append(vs, r.Pending)
	}
	return vs
}

// walOn reports whether commits are logged.
func (r *Runner) walOn() bool { return !r.Plan.Opt.DisableWAL }

// hookFS lets a step run harness code at a file-system operation of the DB
// (used to perform commits *during* a Checkpoint, see stepCheckpoint). The hook
// is consulted for directory/file creations and links only.
type hookFS struct {
	vfs.FS
	r *Runner
}

func (h *hookFS) call(kind, path string) {
	if f := h.r.fsHook; f != nil {
		f(kind, path)
	}
}

func (h *hookFS) MkdirAll(dir string, perm os.FileMode) error {
	h.call("mkdir", dir)
	return h.FS.MkdirAll(dir, perm)
}

func (h *hookFS) Create(name string, c vfs.DiskWriteCategory) (vfs.File, error) {
	h.call("create", name)
	f, err := h.FS.Create(name, c)
	if err == nil && strings.HasPrefix(h.FS.PathBase(name), "MANIFEST-") {
		// version edits are written while the committing operation is between
		// "prepared" and "published": a hook point for racing operations
		return &hookManifest{File: f, h: h, name: name}, nil
	}
	return f, err
}

type hookManifest struct {
	vfs.File
	h    *hookFS
	name string
}

func (m *hookManifest) Write(p []byte) (int, error) {
	m.h.call("manifest-write", m.name)
	return m.File.Write(p)
}

func (h *hookFS) Link(oldname, newname string) error {
	h.call("link", newname)
	return h.FS.Link(oldname, newname)
}

// walCfg is the WAL location configuration at one point of the history.
type walCfg struct {
	cur string
	old []string
}

func (r *Runner) walConfig() walCfg {
	if !r.walInit {
		r.walInit = true
		if r.Plan.Opt.WALDir {
			r.walCur = "walz"
		}
	}
	return walCfg{cur: r.walCur, old: append([]string(nil), r.walOld...)}
}

// apply sets WALDir / WALRecoveryDirs for a store in storeDir on fs.
func (w walCfg) apply(o *pebble.Options, storeDir string, fs vfs.FS) {
	o.WALDir = w.cur
	o.WALRecoveryDirs = nil
	for _, d := range w.old {
		if d == w.cur {
			continue // the current location is scanned anyway (listing it twice is rejected)
		}
		name := d
		if name == "" {
			name = storeDir
		}
		o.WALRecoveryDirs = append(o.WALRecoveryDirs, wal.Dir{FS: fs, Dirname: name})
	}
}

// walRelocate moves the WAL location for the next Open: back to the store
// directory (toStore, when it is elsewhere) or to a fresh directory.
func (r *Runner) walRelocate(toStore bool) {
	c := r.walConfig()
	seen := false
	for _, d := range r.walOld {
		if d == c.cur {
			seen = true
		}
	}
	if !seen {
		r.walOld = append(r.walOld, c.cur)
	}
	if toStore && c.cur != "" {
		r.walCur = ""
	} else {
		r.C["wal-relocations"]++
		r.walCur = fmt.Sprintf("walr%d", r.C["wal-relocations"])
	}
	r.L["wal-relocated"] = true
}

func (r *Runner) Open() error {
	r.Opts = BuildOptions(r.Plan.Opt, &hookFS{FS: r.FS, r: r}, r.Ev.Listener(), r.Log)
	r.walConfig().apply(r.Opts, r.Dir, r.Opts.FS)
	if r.OptHook != nil {
		r.OptHook(r.Opts)
	}
	db, err := pebble.Open(r.Dir, r.Opts)
	if err != nil {
		return errors.Wrap(err, "open")
	}
	r.DB = db
	r.vmu.Lock()
	if fm := int(db.FormatMajorVersion()); fm > r.FMVDurable {
		r.FMVDurable = fm
	}
	r.vmu.Unlock()
	return nil
}

func (r *Runner) fmv() pebble.FormatMajorVersion { return r.DB.FormatMajorVersion() }

// closeHandles closes every open iterator, batch, snapshot.
func (r *Runner) closeHandles() error {
	ids := func(m map[int]*iterH) []int {
		var l []int
		for k := range m {
			l = append(l, k)
		}
		sort.Ints(l)
		return l
	}
	for _, id := range ids(r.iters) {
		if err := closeIter(r.iters[id]); err != nil {
			return fmt.Errorf("iterator #%d close: %v", id, err)
		}
		delete(r.iters, id)
	}
	for id, b := range r.batches {
		if err := b.b.Close(); err != nil {
			return fmt.Errorf("batch #%d close: %v", id, err)
		}
		delete(r.batches, id)
	}
	for id, s := range r.snaps {
		if err := s.s.Close(); err != nil {
			return fmt.Errorf("snapshot #%d close: %v", id, err)
		}
		delete(r.snaps, id)
	}
	for id, s := range r.efos {
		if err := s.s.Close(); err != nil {
			return fmt.Errorf("efos #%d close: %v", id, err)
		}
		delete(r.efos, id)
	}
	return nil
}

// Close closes all handles and the DB.
func (r *Runner) Close() error {
	if r.DB == nil {
		return nil
	}
	if err := r.closeHandles(); err != nil {
		return err
	}
	err := r.DB.Close()
	r.DB = nil
	if err != nil {
		return fmt.Errorf("DB.Close: %v", err)
	}
	return nil
}

func (r *Runner) wo(sync bool) *pebble.WriteOptions {
	// Sync writes are rejected when the WAL is disabled ("pebble: WAL disabled").
	if sync && !r.Plan.Opt.DisableWAL {
		return pebble.Sync
	}
	return pebble.NoSync
}

// sdNote updates single-delete tracking for a committed op; returns false if a
// "sdel" op is not permitted by the SingleDelete contract at this point.
func (r *Runner) sdOK(key string) bool {
	s := r.sd[key]
	return s == nil || (s.sets <= 1 && !s.merged)
}

func (r *Runner) sdNote(o Op) {
	get := func(k string) *sdState {
		s := r.sd[k]
		if s == nil {
			s = &sdState{}
			r.sd[k] = s
		}
		return s
	}
	switch o.K {
	case "set":
		get(o.A).sets++
	case "merge":
		get(o.A).merged = true
	case "del", "delsized", "sdel":
		delete(r.sd, o.A)
	case "delrange":
		for k := range r.sd {
			if inSpan(k, o.A, o.B) {
				delete(r.sd, k)
			}
		}
	}
}

// normalize rewrites ops that are not permitted at this point into permitted
// equivalents (sdel outside its contract -> del; delsized below its format
// version -> del) so that a hand-edited plan stays valid.
func (r *Runner) normalize(ops []Op) []Op {
	out := make([]Op, len(ops))
	copy(out, ops)
	// simulate contract tracking through the batch
	saved := map[string]sdState{}
	for k, v := range r.sd {
		saved[k] = *v
	}
	for i, o := range out {
		if o.K == "sdel" && !r.sdOK(o.A) {
			out[i].K = "del"
			r.C["sdel-demoted"]++
		}
		if o.K == "delsized" && r.fmv() < pebble.FormatDeleteSizedAndObsolete {
			out[i].K = "del"
		}
		r.sdNote(out[i])
	}
	// restore; the caller notes the ops once the commit succeeded.
	r.sd = map[string]*sdState{}
	for k, v := range saved {
		c := v
		r.sd[k] = &c
	}
	return out
}

type writer interface {
	Set(key, value []byte, o *pebble.WriteOptions) error
	Delete(key []byte, o *pebble.WriteOptions) error
	DeleteSized(key []byte, size uint32, o *pebble.WriteOptions) error
	SingleDelete(key []byte, o *pebble.WriteOptions) error
	DeleteRange(start, end []byte, o *pebble.WriteOptions) error
	Merge(key, value []byte, o *pebble.WriteOptions) error
	LogData(data []byte, o *pebble.WriteOptions) error
	RangeKeySet(start, end, suffix, value []byte, o *pebble.WriteOptions) error
	RangeKeyUnset(start, end, suffix []byte, o *pebble.WriteOptions) error
	RangeKeyDelete(start, end []byte, o *pebble.WriteOptions) error
}

func applyOp(w writer, o Op, opt *pebble.WriteOptions) error {
	switch o.K {
	case "set":
		return w.Set([]byte(o.A), o.Value(), opt)
	case "del":
		return w.Delete([]byte(o.A), opt)
	case "delsized":
		return w.DeleteSized([]byte(o.A), uint32(o.N), opt)
	case "sdel":
		return w.SingleDelete([]byte(o.A), opt)
	case "delrange":
		return w.DeleteRange([]byte(o.A), []byte(o.B), opt)
	case "merge":
		return w.Merge([]byte(o.A), o.Value(), opt)
	case "logdata":
		return w.LogData([]byte("log:"+o.V), opt)
	case "rkset":
		return w.RangeKeySet([]byte(o.A), []byte(o.B), sfxBytes(o.S), o.Value(), opt)
	case "rkunset":
		return w.RangeKeyUnset([]byte(o.A), []byte(o.B), sfxBytes(o.S), opt)
	case "rkdel":
		return w.RangeKeyDelete([]byte(o.A), []byte(o.B), opt)
	}
	return fmt.Errorf("harness: unknown op kind %q", o.K)
}

// commit records ops as committed in the model.
func (r *Runner) commit(ops []Op, next *State, durable bool) {
	for _, o := range ops {
		r.sdNote(o)
	}
	r.push(next, durable)
}

// ---------------------------------------------------------------- reads

func fmtVal(b []byte) string {
	if len(b) > 32 {
		return fmt.Sprintf("%q..(%d)", b[:32], len(b))
	}
	return fmt.Sprintf("%q", b)
}

type getter interface {
	Get(key []byte) ([]byte, interface{ Close() error }, error)
}

func checkGet(what string, get func([]byte) ([]byte, error), st *State, key string) error {
	v, err := get([]byte(key))
	want, ok := st.Points[key]
	if err == pebble.ErrNotFound {
		if ok {
			return fmt.Errorf("%s Get(%s): ErrNotFound, model has %s", what, key, fmtVal([]byte(want)))
		}
		return nil
	}
	if err != nil {
		return fmt.Errorf("%s Get(%s): unexpected error %v", what, key, err)
	}
	if !ok {
		return fmt.Errorf("%s Get(%s) = %s, model has no such key", what, key, fmtVal(v))
	}
	if string(v) != want {
		return fmt.Errorf("%s Get(%s) = %s, model has %s", what, key, fmtVal(v), fmtVal([]byte(want)))
	}
	return nil
}

func dbGet(db interface {
	Get([]byte) ([]byte, interfaceCloser, error)
}) {
}

type interfaceCloser interface{ Close() error }

// ---------------------------------------------------------------- iterators

func (r *Runner) iterOptions(o IterOpts) *pebble.IterOptions {
	io := &pebble.IterOptions{}
	if o.Lower != "" {
		io.LowerBound = []byte(o.Lower)
	}
	if o.Upper != "" {
		io.UpperBound = []byte(o.Upper)
	}
	switch o.KT {
	case KTPoints:
		io.KeyTypes = pebble.IterKeyTypePointsOnly
	case KTRanges:
		io.KeyTypes = pebble.IterKeyTypeRangesOnly
	case KTBoth:
		io.KeyTypes = pebble.IterKeyTypePointsAndRanges
	}
	if o.Mask > 0 && o.KT == KTBoth {
		io.RangeKeyMasking.Suffix = sfxBytes(o.Mask)
		if o.MaskF {
			io.RangeKeyMasking.Filter = func() pebble.BlockPropertyFilterMask { return sstable.NewTestKeysMaskingFilter() }
		}
	}
	return io
}

func realPos(it *pebble.Iterator) Pos {
	if !it.Valid() {
		return Pos{}
	}
	p := Pos{Valid: true, Key: string(it.Key())}
	hp, hr := it.HasPointAndRange()
	p.HasPoint, p.HasRange = hp, hr
	if hp {
		v, err := it.ValueAndErr()
		if err != nil {
			p.Value = "<value error: " + err.Error() + ">"
		} else {
			p.Value = string(v)
			// the lazy value and Value() must agree with ValueAndErr (C44)
			lv := it.LazyValue()
			if v2, _, err2 := lv.Value(nil); err2 != nil {
				p.Value = "<lazy value error: " + err2.Error() + ">"
			} else if string(v2) != p.Value {
				p.Value = fmt.Sprintf("<LazyValue().Value() %s differs from ValueAndErr() %s>", fmtVal(v2), fmtVal(v))
			} else if v3 := it.Value(); string(v3) != p.Value {
				p.Value = fmt.Sprintf("<Value() %s differs from ValueAndErr() %s>", fmtVal(v3), fmtVal(v))
			}
		}
	}
	if hr {
		s, e := it.RangeBounds()
		p.RStart, p.REnd = string(s), string(e)
		for _, k := range it.RangeKeys() {
			n := 0
			if len(k.Suffix) > 0 {
				fmt.Sscanf(string(k.Suffix), "@%d", &n)
			}
			p.RKeys = append(p.RKeys, rkv{n, string(k.Value)})
		}
	}
	return p
}

func posEqual(a, b Pos) bool {
	if a.Valid != b.Valid {
		return false
	}
	if !a.Valid {
		return true
	}
	if a.Key != b.Key || a.HasPoint != b.HasPoint || a.HasRange != b.HasRange {
		return false
	}
	if a.HasPoint && a.Value != b.Value {
		return false
	}
	if a.HasRange {
		if a.RStart != b.RStart || a.REnd != b.REnd || len(a.RKeys) != len(b.RKeys) {
			return false
		}
		for i := range a.RKeys {
			if a.RKeys[i] != b.RKeys[i] {
				return false
			}
		}
	}
	return true
}

func rsOf(p Pos) rangeState {
	if !p.Valid || !p.HasRange {
		return rangeState{}
	}
	return rangeState{has: true, start: p.RStart, end: p.REnd, keys: fmt.Sprint(p.RKeys)}
}

func hasSuffix(k string) bool { return strings.IndexByte(k, '@') >= 0 }

// iterApply executes one iterator op on h and compares with the model.
// It returns (skipped, error).
func (r *Runner) iterApply(name string, h *iterH, op IterOp) (bool, error) {
	it, m := h.it, h.m
	fail := func(format string, args ...any) error {
		return fmt.Errorf("%s %s (op #%d on this iterator, opts %+v, prefixMode=%v): %s", name, op, h.nops, m.o, m.hasPrefix, fmt.Sprintf(format, args...))
	}
	var exp Pos
	fwd := true
	limited := false
	abs := false
	switch op.Op {
	case "setbounds", "setopts":
		if op.Opts == nil {
			return true, nil
		}
		no := *op.Opts
		if op.Op == "setbounds" {
			keep := m.o
			keep.Lower, keep.Upper = no.Lower, no.Upper
			no = keep
			var lo, hi []byte
			if no.Lower != "" {
				lo = []byte(no.Lower)
			}
			if no.Upper != "" {
				hi = []byte(no.Upper)
			}
			it.SetBounds(lo, hi)
		} else {
			it.SetOptions(r.iterOptions(no))
			if h.batch != nil {
				// SetOptions refreshes the batch view.
				nm := NewIterModel(h.base.Apply(h.batch.ops), no)
				*m = *nm
			}
		}
		m.SetOpts(no)
		r.C["iter-"+op.Op]++
		h.st = stUnpos
		h.prevRS = rangeState{}
		h.nops++
		if err := it.Error(); err != nil && !h.expErr {
			return false, fail("unexpected error %v", err)
		}
		return false, nil
	case "first":
		abs = true
		m.ClearPrefix()
		exp = m.FirstGE("", false)
	case "last":
		abs, fwd = true, false
		m.ClearPrefix()
		exp = m.LastLT("")
	case "seekge", "seekgel":
		abs = true
		limited = op.Op == "seekgel"
		m.ClearPrefix()
		exp = m.FirstGE(op.Key, true)
	case "seeklt", "seekltl":
		abs, fwd = true, false
		limited = op.Op == "seekltl"
		m.ClearPrefix()
		exp = m.LastLT(op.Key)
	case "seekprefixge":
		abs = true
		pfx, _ := splitKey(op.Key)
		// documented errors for keys outside the bounds with a different prefix
		wantErr := false
		if lo := m.o.Lower; lo != "" && cmpKey(op.Key, lo) < 0 {
			if lp, _ := splitKey(lo); lp != pfx {
				wantErr = true
			}
		} else if hi := m.o.Upper; hi != "" && cmpKey(op.Key, hi) > 0 {
			if hp, _ := splitKey(hi); hp != pfx {
				wantErr = true
			}
		}
		if wantErr {
			ok := it.SeekPrefixGE([]byte(op.Key))
			h.nops++
			if ok || it.Error() == nil {
				return false, fail("expected the documented out-of-bounds error, got valid=%v err=%v", ok, it.Error())
			}
			h.st = stUnpos
			h.prevRS = rangeState{}
			h.expErr = true
			m.ClearPrefix()
			r.C["iter-expected-error"]++
			return false, nil
		}
		m.SetPrefix(pfx)
		exp = m.FirstGE(op.Key, true)
	case "next", "nextl":
		limited = op.Op == "nextl"
		switch h.st {
		case stValid:
			exp = m.NextAfter(h.cur.Key)
		case stExhBack:
			exp = m.FirstGE("", false)
		case stLimFwd:
			exp = h.pending
		case stExhFwd:
			exp = Pos{}
		default:
			return true, nil
		}
	case "prev", "prevl":
		fwd = false
		limited = op.Op == "prevl"
		if m.hasPrefix {
			return true, nil // reverse iteration is not supported in prefix mode
		}
		switch h.st {
		case stValid:
			exp = m.LastLT(h.cur.Key)
		case stExhFwd:
			exp = m.LastLT("")
		case stLimBack:
			exp = h.pending
		case stExhBack:
			exp = Pos{}
		default:
			return true, nil
		}
	case "nextprefix":
		if h.st != stValid {
			return true, nil
		}
		if m.o.Upper != "" && hasSuffix(m.o.Upper) {
			return true, nil // documented as not permitted
		}
		if m.hasPrefix {
			exp = Pos{}
		} else {
			exp = m.NextPrefixAfter(h.cur.Key)
		}
	default:
		return true, nil
	}
	if limited && (m.hasPrefix || op.Limit == "") {
		return true, nil // limited iteration is not for use with prefix iteration
	}
	// ---- execute
	var vs pebble.IterValidityState
	switch op.Op {
	case "first":
		vs = b2v(it.First())
	case "last":
		vs = b2v(it.Last())
	case "seekge":
		vs = b2v(it.SeekGE([]byte(op.Key)))
	case "seekgel":
		vs = it.SeekGEWithLimit([]byte(op.Key), []byte(op.Limit))
	case "seeklt":
		vs = b2v(it.SeekLT([]byte(op.Key)))
	case "seekltl":
		vs = it.SeekLTWithLimit([]byte(op.Key), []byte(op.Limit))
	case "seekprefixge":
		vs = b2v(it.SeekPrefixGE([]byte(op.Key)))
	case "next":
		vs = b2v(it.Next())
	case "nextl":
		vs = it.NextWithLimit([]byte(op.Limit))
	case "prev":
		vs = b2v(it.Prev())
	case "prevl":
		vs = it.PrevWithLimit([]byte(op.Limit))
	case "nextprefix":
		vs = b2v(it.NextPrefix())
	}
	h.nops++
	r.C["iterops"]++
	if abs {
		h.expErr = false
	}
	if err := it.Error(); err != nil {
		return false, fail("unexpected iterator error: %v", err)
	}
	got := Pos{}
	if vs == pebble.IterValid {
		if !it.Valid() {
			return false, fail("returned IterValid but Valid() is false")
		}
		got = realPos(it)
	} else if !limited && it.Valid() {
		return false, fail("returned false but Valid() is true at %s", realPos(it))
	}

	switch vs {
	case pebble.IterValid:
		if !posEqual(got, exp) {
			return false, fail("got %s, model expects %s", got, exp)
		}
		// RangeKeyChanged must be true whenever the range-key state differs from
		// the one at the previous valid position (a spurious true is allowed).
		if m.o.KT != KTPoints {
			if rs := rsOf(got); rs != h.prevRS && !it.RangeKeyChanged() {
				return false, fail("RangeKeyChanged()=false although the range key state changed from %+v to %+v", h.prevRS, rs)
			}
		}
		h.st, h.cur = stValid, got
		h.prevRS = rsOf(got)
	case pebble.IterAtLimit:
		if !limited {
			return false, fail("IterAtLimit from an unlimited op")
		}
		if exp.Valid {
			if fwd && cmpKey(exp.Key, op.Limit) < 0 {
				return false, fail("paused at limit %s although the model's next position %s is before the limit", op.Limit, exp)
			}
			if !fwd && cmpKey(exp.Key, op.Limit) >= 0 {
				return false, fail("paused at limit %s although the model's previous position %s is at/after the limit", op.Limit, exp)
			}
		}
		h.pending = exp
		if fwd {
			h.st = stLimFwd
		} else {
			h.st = stLimBack
		}
		h.prevRS = rangeState{}
		r.C["iter-at-limit"]++
	default: // exhausted
		if exp.Valid {
			return false, fail("iterator exhausted, model expects %s", exp)
		}
		if fwd {
			h.st = stExhFwd
		} else {
			h.st = stExhBack
		}
		h.prevRS = rangeState{}
	}
	return false, nil
}

func b2v(b bool) pebble.IterValidityState {
	if b {
		return pebble.IterValid
	}
	return pebble.IterExhausted
}

// viewFor resolves a reader name to (state, newIter, get, restrict).
type reader struct {
	what    string
	st      *State
	newIter func(*pebble.IterOptions) (*pebble.Iterator, error)
	get     func([]byte) ([]byte, error)
	batch   *batchH
	// excised spans (classic snapshots): reads inside are not compared.
	excised [][2]string
	// ranges: reads must stay inside one of these (EFOS).
	ranges [][2]string
	snap   *snapH
	ef     *efosH
}

func closeGet(v []byte, c interface{ Close() error }, err error) ([]byte, error) {
	if err != nil {
		return nil, err
	}
	out := append([]byte(nil), v...)
	if cerr := c.Close(); cerr != nil {
		return nil, cerr
	}
	return out, nil
}

func (r *Runner) reader(on string, id int) *reader {
	switch on {
	case "", "db":
		return &reader{what: "db", st: r.Latest(),
			newIter: func(o *pebble.IterOptions) (*pebble.Iterator, error) { return r.DB.NewIter(o) },
			get:     func(k []byte) ([]byte, error) { return closeGet(r.DB.Get(k)) }}
	case "snap":
		s := r.snaps[id]
		if s == nil {
			return nil
		}
		return &reader{what: fmt.Sprintf("snapshot#%d", id), st: r.Versions[s.ver], excised: s.excised, snap: s,
			newIter: func(o *pebble.IterOptions) (*pebble.Iterator, error) { return s.s.NewIter(o) },
			get:     func(k []byte) ([]byte, error) { return closeGet(s.s.Get(k)) }}
	case "efos":
		s := r.efos[id]
		if s == nil {
			return nil
		}
		return &reader{what: fmt.Sprintf("efos#%d", id), st: r.Versions[s.ver], ranges: s.ranges, ef: s,
			newIter: func(o *pebble.IterOptions) (*pebble.Iterator, error) { return s.s.NewIter(o) },
			get:     func(k []byte) ([]byte, error) { return closeGet(s.s.Get(k)) }}
	case "batch":
		b := r.batches[id]
		if b == nil {
			return nil
		}
		return &reader{what: fmt.Sprintf("batch#%d", id), st: r.Latest().Apply(b.ops), batch: b,
			newIter: func(o *pebble.IterOptions) (*pebble.Iterator, error) { return b.b.NewIter(o) },
			get:     func(k []byte) ([]byte, error) { return closeGet(b.b.Get(k)) }}
	}
	return nil
}

func overlapsAny(lo, hi string, spans [][2]string) bool {
	for _, s := range spans {
		// [lo,hi) with ""=unbounded
		if (hi == "" || cmpKey(s[0], hi) < 0) && (lo == "" || cmpKey(lo, s[1]) < 0) {
			return true
		}
	}
	return false
}

func insideOne(lo, hi string, spans [][2]string) bool {
	if lo == "" || hi == "" {
		return false
	}
	for _, s := range spans {
		if cmpKey(s[0], lo) <= 0 && cmpKey(hi, s[1]) <= 0 {
			return true
		}
	}
	return false
}

// readable reports whether an iterator with these bounds may be compared for rd.
func (rd *reader) readable(o IterOpts) bool {
	if len(rd.excised) > 0 && overlapsAny(o.Lower, o.Upper, rd.excised) {
		return false
	}
	if rd.ranges != nil && !insideOne(o.Lower, o.Upper, rd.ranges) {
		return false
	}
	return true
}

func (rd *reader) gettable(k string) bool {
	for _, s := range rd.excised {
		if inSpan(k, s[0], s[1]) {
			return false
		}
	}
	if rd.ranges != nil {
		for _, s := range rd.ranges {
			if inSpan(k, s[0], s[1]) {
				return true
			}
		}
		return false
	}
	return true
}

// ---------------------------------------------------------------- ingest

func (r *Runner) writeTable(ops []Op) (string, error) {
	r.extN++
	if err := r.FS.MkdirAll("ext", 0o755); err != nil {
		return "", err
	}
	path := fmt.Sprintf("ext/%06d.sst", r.extN)
	if err := WriteSST(r.FS, path, r.Opts.MakeWriterOptions(0, r.fmv().MaxTableFormat()), ops); err != nil {
		return "", err
	}
	return path, nil
}

// writeTableBlobs writes a table of point sets whose values are separated into
// an external blob file (valsep.SSTBlobWriter), for IngestAndExciseWithBlobs.
func (r *Runner) writeTableBlobs(ops []Op) (pebble.LocalSST, error) {
	r.extN++
	if err := r.FS.MkdirAll("ext", 0o755); err != nil {
		return pebble.LocalSST{}, err
	}
	path := fmt.Sprintf("ext/%06d.sst", r.extN)
	var blobPaths []string
	wo := valsep.SSTBlobWriterOptions{
		SSTWriterOpts:          r.Opts.MakeWriterOptions(0, r.fmv().MaxTableFormat()),
		ValueSeparationMinSize: 1,
	}
	wo.NewBlobFileFn = func() (objstorage.Writable, error) {
		bp := fmt.Sprintf("ext/%06d-%d.blob", r.extN, len(blobPaths))
		f, err := r.FS.Create(bp, vfs.WriteCategoryUnspecified)
		if err != nil {
			return nil, err
		}
		blobPaths = append(blobPaths, bp)
		return objstorageprovider.NewFileWritable(f), nil
	}
	f, err := r.FS.Create(path, vfs.WriteCategoryUnspecified)
	if err != nil {
		return pebble.LocalSST{}, err
	}
	w := valsep.NewSSTBlobWriter(objstorageprovider.NewFileWritable(f), wo)
	pts := append([]Op(nil), ops...)
	sort.SliceStable(pts, func(i, j int) bool { return cmpKey(pts[i].A, pts[j].A) < 0 })
	for _, o := range pts {
		if err := w.Set([]byte(o.A), o.Value()); err != nil {
			return pebble.LocalSST{}, fmt.Errorf("sst+blob writer %s: %v", o, err)
		}
	}
	if err := w.Close(); err != nil {
		return pebble.LocalSST{}, fmt.Errorf("sst+blob writer close: %v", err)
	}
	if len(blobPaths) > 0 {
		r.C["ingested-tables-with-blob-files"]++
	}
	return pebble.LocalSST{Path: path, BlobPaths: blobPaths}, nil
}

func onlySets(tables [][]Op) bool {
	for _, t := range tables {
		for _, o := range t {
			if o.K != "set" {
				return false
			}
		}
	}
	return true
}

// WriteSST writes the ops (any order; they are sorted per key kind) as one
// sstable suitable for DB.Ingest and syncs it.
func WriteSST(fs vfs.FS, path string, wopts sstable.WriterOptions, ops []Op) error {
	f, err := fs.Create(path, vfs.WriteCategoryUnspecified)
	if err != nil {
		return err
	}
	w := sstable.NewWriter(objstorageprovider.NewFileWritable(f), wopts)
	var pts, rds, rks []Op
	for _, o := range ops {
		switch o.K {
		case "set", "del", "merge":
			pts = append(pts, o)
		case "delrange":
			rds = append(rds, o)
		case "rkset", "rkunset", "rkdel":
			rks = append(rks, o)
		}
	}
	sort.SliceStable(pts, func(i, j int) bool { return cmpKey(pts[i].A, pts[j].A) < 0 })
	sort.SliceStable(rds, func(i, j int) bool { return cmpKey(rds[i].A, rds[j].A) < 0 })
	sort.SliceStable(rks, func(i, j int) bool { return cmpKey(rks[i].A, rks[j].A) < 0 })
	for _, o := range pts {
		switch o.K {
		case "set":
			err = w.Set([]byte(o.A), o.Value())
		case "del":
			err = w.Delete([]byte(o.A))
		case "merge":
			err = w.Merge([]byte(o.A), o.Value())
		}
		if err != nil {
			return fmt.Errorf("sstable writer %s: %v", o, err)
		}
	}
	for _, o := range rds {
		if err := w.DeleteRange([]byte(o.A), []byte(o.B)); err != nil {
			return fmt.Errorf("sstable writer %s: %v", o, err)
		}
	}
	for _, o := range rks {
		switch o.K {
		case "rkset":
			err = w.RangeKeySet([]byte(o.A), []byte(o.B), sfxBytes(o.S), o.Value())
		case "rkunset":
			err = w.RangeKeyUnset([]byte(o.A), []byte(o.B), sfxBytes(o.S))
		case "rkdel":
			err = w.RangeKeyDelete([]byte(o.A), []byte(o.B))
		}
		if err != nil {
			return fmt.Errorf("sstable writer %s: %v", o, err)
		}
	}
	if err := w.Close(); err != nil {
		return fmt.Errorf("sstable writer close: %v", err)
	}
	return nil
}

// ---------------------------------------------------------------- steps

// Step executes plan step i. A returned error is a property violation (or an
// unexpected error from a valid operation, which is one too).
func (r *Runner) Step(i int) error {
	r.stepIdx = i
	r.stepA.Store(int64(i))
	s := r.Plan.Steps[i]
	err := r.step(s)
	if err != nil {
		return fmt.Errorf("step %d %s: %v", i, s.String(), err)
	}
	if r.Plan.Opt.CheckLevels && r.DB != nil {
		// Options.DebugCheck = DebugCheckLevels already runs pebble's own level
		// checker on every version installation; the explicit check and the
		// independent checker (which reads every table) run at quiescent points,
		// after manual compactions and at the last step.
		last := i == len(r.Plan.Steps)-1
		switch k := s.K; {
		case k == "wait" || k == "restart" || k == "compact" || k == "ingestexcise" || k == "excise" || last:
			// the version must not change under the checker: quiesce first.
			r.Wait()
			if err := r.DB.CheckLevels(nil); err != nil {
				return fmt.Errorf("after step %d %s: DB.CheckLevels: %v", i, s.String(), err)
			}
			if err := checkVersionIndependent(r); err != nil {
				return fmt.Errorf("after step %d %s: %v", i, s.String(), err)
			}
		}
	}
	if r.Plan.Opt.FilesCheck && r.DB != nil && (s.K == "wait" || s.K == "restart") {
		r.Wait()
		if err := checkFiles(r, r.noReaders()); err != nil {
			return fmt.Errorf("after step %d %s: %v", i, s.String(), err)
		}
	}
	return r.health()
}

// blobAgg are the blob-file aggregates of DB.Metrics().
type blobAgg struct {
	Live, LiveSize                           uint64
	ValueSize, Referenced, ReferencedBacking uint64
}

func sampleBlobAgg(db *pebble.DB) blobAgg {
	m := db.Metrics()
	t := m.BlobFiles.Live.Total()
	return blobAgg{Live: t.Count, LiveSize: t.Bytes, ValueSize: m.BlobFiles.ValueSize,
		Referenced: m.BlobFiles.ReferencedValueSize, ReferencedBacking: m.BlobFiles.ReferencedBackingValueSize}
}

// checkBlobAccounting: at a quiescent moment the aggregate "referenced value
// bytes" reported by Metrics equals the sum over the blob references of the
// tables of the current version (its definition); the running store maintains
// it edit by edit, a reopened store rebuilds it from the MANIFEST in one bulk
// edit, and both must agree with the version itself.
func (r *Runner) checkBlobAccounting(when string) error {
	if r.DB == nil || !r.Plan.Opt.ValSep || (r.sfs != nil && r.sfs.sp.HoldManifest > 0) {
		return nil
	}
	for attempt := 0; attempt < 3; attempt++ {
		v1 := r.DB.DebugCurrentVersion()
		m := r.DB.Metrics()
		if v2 := r.DB.DebugCurrentVersion(); v1 != v2 {
			continue // a version was installed in between: not a quiescent sample
		}
		var want uint64
		for l := range v1.Levels {
			for t := range v1.Levels[l].All() {
				for _, ref := range t.BlobReferences {
					want += ref.ValueSize
				}
			}
		}
		r.C["blob-accounting-checks"]++
		if got := m.BlobFiles.ReferencedValueSize; got != want {
			return fmt.Errorf("%s: Metrics().BlobFiles.ReferencedValueSize = %d, but the blob references of the tables of the current version sum to %d (live blob files: %d, their value bytes: %d)",
				when, got, want, m.BlobFiles.Live.Total().Count, m.BlobFiles.ValueSize)
		}
		return nil
	}
	return nil
}

// sampleLSM records LSM-shape facts for the non-triviality rules.
func (r *Runner) sampleLSM() {
	if r.DB == nil {
		return
	}
	if r.sfs != nil && r.sfs.sp.HoldManifest > 0 {
		// Metrics() waits for the manifest lock: sampling would park the
		// foreground behind every held MANIFEST sync and defeat the hold.
		return
	}
	m := r.DB.Metrics()
	levels, virt := 0, false
	for i := range m.Levels {
		if m.Levels[i].Tables.Count > 0 {
			levels++
		}
		if m.Levels[i].VirtualTables.Count > 0 {
			virt = true
		}
	}
	if levels > r.C["max-nonempty-levels"] {
		r.C["max-nonempty-levels"] = levels
	}
	if int(m.Levels[0].Sublevels) > r.C["max-l0-sublevels"] {
		r.C["max-l0-sublevels"] = int(m.Levels[0].Sublevels)
	}
	if virt {
		r.L["virtual-tables"] = true
	}
	if m.BlobFiles.Live.Total().Count > 0 {
		r.L["blob-files-live"] = true
	}
	if m.Table.Physical.Zombie.Total().Count > 0 {
		r.L["zombie-tables"] = true
	}
}

// health reports asynchronous problems.
func (r *Runner) health() error {
	r.sampleLSM() // must not hold Ev.mu: Metrics() waits for the manifest lock
	r.Ev.mu.Lock()
	defer r.Ev.mu.Unlock()
	if len(r.Ev.BGErrors) > 0 {
		return fmt.Errorf("background error reported by the DB: %s", r.Ev.BGErrors[0])
	}
	// PossibleAPIMisuse events (ineffectual / nondeterministic single delete,
	// mis-sized delete) are advisory and documented as having false positives;
	// they are only counted.
	r.C["api-misuse-events"] = len(r.Ev.Misuse)
	return nil
}

func (r *Runner) step(s Step) (err error) {
	ctx := context.Background()
	switch s.K {
	case "write":
		if len(s.Ops) == 0 {
			return nil
		}
		ops := r.normalize(s.Ops)
		next := r.Latest().Apply(ops)
		r.begin(next)
		defer r.abort()
		// ApplyNoSyncWait requires WriteOptions.Sync (documented).
		nsw := s.NoSyncWait && s.Sync && !r.Plan.Opt.DisableWAL
		if len(ops) == 1 && !nsw {
			if err := applyOp(r.DB, ops[0], r.wo(s.Sync)); err != nil {
				return fmt.Errorf("unexpected error: %v", err)
			}
		} else {
			b := r.DB.NewBatch()
			for _, o := range ops {
				if err := applyOp(b, o, nil); err != nil {
					return fmt.Errorf("batch op %s: unexpected error: %v", o, err)
				}
			}
			if nsw {
				if err := r.DB.ApplyNoSyncWait(b, r.wo(s.Sync)); err != nil {
					return fmt.Errorf("ApplyNoSyncWait: unexpected error: %v", err)
				}
				if err := b.SyncWait(); err != nil {
					return fmt.Errorf("SyncWait: unexpected error: %v", err)
				}
			} else if err := b.Commit(r.wo(s.Sync)); err != nil {
				return fmt.Errorf("Commit: unexpected error: %v", err)
			}
			if err := b.Close(); err != nil {
				return fmt.Errorf("batch Close: %v", err)
			}
		}
		r.commit(ops, next, s.Sync && r.walOn())
		r.C["writes"]++
		for _, o := range ops {
			r.L["op="+o.K] = true
			if o.VLen >= r.Plan.Opt.MemTableSize/2 {
				r.L["large-batch"] = true
			}
		}
	case "flush":
		if err := r.DB.Flush(); err != nil {
			return fmt.Errorf("unexpected error: %v", err)
		}
		r.markDurable()
		if s.Flag {
			// inserted by the generator before an ingest/excise (Profile.DurableIngest /
			// FlushBeforeIngest: classes excluded as known findings)
			r.C["flush-inserted-before-structural-op"]++
		}
		if s.Flag {
			// inserted by the generator before an ingest/excise (Profile.DurableIngest /
			// FlushBeforeIngest: classes excluded as known findings)
			r.C["flush-inserted-before-structural-op"]++
		}
	case "compact":
		a, b := s.A, s.B
		if a == "" || b == "" || cmpKey(a, b) >= 0 {
			return nil
		}
		if err := r.DB.Compact(ctx, []byte(a), []byte(b), s.Flag); err != nil {
			return fmt.Errorf("unexpected error: %v", err)
		}
		r.L["manual-compact"] = true
	case "wait":
		r.Wait()
		return r.checkBlobAccounting("at a quiescent point")
	case "waithold":
		// until a background version edit is written but not yet synced
		if r.sfs.waitHold() {
			r.C["waited-for-held-manifest-sync"]++
			r.L["foreground-continued-during-held-manifest-sync"] = true
		}
	case "restart":
		if r.Plan.Opt.DisableWAL {
			// Without a WAL only flushed data survives Close (documented); flush
			// first so that the model stays the full history.
			if err := r.DB.Flush(); err != nil {
				return fmt.Errorf("flush before restart: %v", err)
			}
		}
		// Replay determinism of the blob-file accounting: with value separation
		// and only manual compactions, a store that is flushed and idle shows the
		// same blob aggregates after Close + Open (the reopened store rebuilds
		// them from the MANIFEST in one bulk edit; the running store maintained
		// them edit by edit).
		var blobBefore *blobAgg
		if r.Plan.Opt.ValSep && r.Plan.Opt.DisableAutoCompaction && r.stepIdx%2 == 0 {
			if err := r.DB.Flush(); err != nil {
				return fmt.Errorf("flush before restart: %v", err)
			}
			r.Wait()
			b := sampleBlobAgg(r.DB)
			blobBefore = &b
		}
		if err := r.Close(); err != nil {
			return err
		}
		r.markDurable()
		defer func() {
			if blobBefore == nil || err != nil || r.DB == nil {
				return
			}
			r.Wait()
			if err = r.checkBlobAccounting("after Close + Open"); err != nil {
				return
			}
			after := sampleBlobAgg(r.DB)
			r.C["blob-accounting-restart-checks"]++
			if after != *blobBefore {
				err = fmt.Errorf("blob-file accounting differs after Close + Open of a flushed, idle store (only manual compactions): before %+v, after %+v", *blobBefore, after)
			}
		}()
		if s.Flag && !r.Plan.Opt.DisableWAL {
			// reopen with the WAL somewhere else; the previous location becomes a
			// recovery directory
			r.walRelocate(s.N == 0)
		}
		if err := r.Open(); err != nil {
			return err
		}
		r.L["restart"] = true
		if blobBefore == nil {
			r.Wait()
			if err := r.checkBlobAccounting("after Close + Open"); err != nil {
				return err
			}
		}
	case "ingest", "ingestexcise":
		return r.stepIngest(ctx, s)
	case "excise":
		if r.fmv() < pebble.FormatVirtualSSTables || s.A == "" || cmpKey(s.A, s.B) >= 0 {
			return nil
		}
		n := r.Latest().clone()
		n.exciseSpan(s.A, s.B)
		r.begin(n)
		defer r.abort()
		wasDurable := r.Durable == len(r.Versions)-1
		race := r.startEFOSRace(s)
		if err := r.DB.Excise(ctx, pebble.KeyRange{Start: []byte(s.A), End: []byte(s.B)}); err != nil {
			race.abandon()
			return fmt.Errorf("unexpected error: %v", err)
		}
		r.push(n, wasDurable)
		r.sdNote(Op{K: "delrange", A: s.A, B: s.B})
		r.noteExcise(s.A, s.B)
		r.L["excise"] = true
		return race.resolve("Excise")
	case "snap":
		if r.snaps[s.ID] != nil {
			return nil
		}
		r.snaps[s.ID] = &snapH{s: r.DB.NewSnapshot(), ver: len(r.Versions) - 1}
		r.C["snapshots"]++
	case "snapclose":
		if h := r.snaps[s.ID]; h != nil {
			delete(r.snaps, s.ID)
			if err := h.s.Close(); err != nil {
				return fmt.Errorf("unexpected error: %v", err)
			}
		}
	case "efos":
		if r.efos[s.ID] != nil || len(s.Spans) == 0 {
			return nil
		}
		var krs []pebble.KeyRange
		for _, sp := range s.Spans {
			krs = append(krs, pebble.KeyRange{Start: []byte(sp[0]), End: []byte(sp[1])})
		}
		r.efos[s.ID] = &efosH{s: r.DB.NewEventuallyFileOnlySnapshot(krs), ver: len(r.Versions) - 1, ranges: s.Spans}
		r.C["efos"]++
	case "efoswait":
		if h := r.efos[s.ID]; h != nil {
			// The transition needs the memtables that overlap the protected ranges flushed.
			if err := r.DB.Flush(); err != nil {
				return fmt.Errorf("flush: %v", err)
			}
			if err := h.s.WaitForFileOnlySnapshot(ctx, time.Millisecond); err != nil {
				return fmt.Errorf("WaitForFileOnlySnapshot: unexpected error: %v", err)
			}
			r.L["efos-transitioned"] = true
		}
	case "efosclose":
		if h := r.efos[s.ID]; h != nil {
			delete(r.efos, s.ID)
			if err := h.s.Close(); err != nil {
				return fmt.Errorf("unexpected error: %v", err)
			}
		}
	case "get":
		rd := r.reader(s.On, s.ID2)
		if rd == nil || !rd.gettable(s.A) {
			return nil
		}
		r.C["gets"]++
		r.noteRead(rd)
		return checkGet(rd.what, rd.get, rd.st, s.A)
	case "scan":
		rd := r.reader(s.On, s.ID2)
		if rd == nil {
			return nil
		}
		o := IterOpts{}
		if s.IO != nil {
			o = *s.IO
		}
		if !rd.readable(o) {
			return nil
		}
		r.noteRead(rd)
		return r.scan(rd, o, s.Flag)
	case "iternew":
		if r.iters[s.ID] != nil {
			return nil
		}
		rd := r.reader(s.On, s.ID2)
		if rd == nil {
			return nil
		}
		o := IterOpts{}
		if s.IO != nil {
			o = *s.IO
		}
		if !rd.readable(o) {
			return nil
		}
		it, err := rd.newIter(r.iterOptions(o))
		if err != nil {
			return fmt.Errorf("NewIter: unexpected error: %v", err)
		}
		h := &iterH{it: it, m: NewIterModel(rd.st, o), created: r.stepIdx, batch: rd.batch, snap: rd.snap, ef: rd.ef}
		if rd.batch != nil {
			h.base = r.Latest()
		} else {
			h.base = rd.st
		}
		// remember restrictions for SetBounds/SetOptions on restricted readers
		if len(rd.excised) > 0 || rd.ranges != nil {
			r.L["restricted-iter"] = true
		}
		r.iters[s.ID] = h
		r.C["iters"]++
		return r.iterOps(s.ID, h, s.IOps)
	case "iterop":
		h := r.iters[s.ID]
		if h == nil {
			return nil
		}
		if h.created != r.stepIdx {
			r.noteHeld(h)
		}
		return r.iterOps(s.ID, h, s.IOps)
	case "iterclone":
		h := r.iters[s.ID]
		if h == nil || r.iters[s.ID2] != nil {
			return nil
		}
		o := h.m.o
		co := pebble.CloneOptions{RefreshBatchView: s.Flag}
		if s.IO != nil {
			o = *s.IO
			co.IterOptions = r.iterOptions(o)
		}
		// a clone with new bounds must respect the read restrictions of its
		// reader (classic snapshot with later excises, EFOS protected ranges)
		if rd := r.restrictionOf(h); rd != nil && !rd.readable(o) {
			return nil
		}
		it, err := h.it.Clone(co)
		if err != nil {
			return fmt.Errorf("Clone: unexpected error: %v", err)
		}
		nh := &iterH{it: it, base: h.base, batch: h.batch, created: r.stepIdx, snap: h.snap, ef: h.ef}
		if h.batch != nil && s.Flag {
			nh.m = NewIterModel(h.base.Apply(h.batch.ops), o)
		} else {
			// same view as the parent
			cp := *h.m
			nh.m = &cp
			nh.m.SetOpts(o)
		}
		r.iters[s.ID2] = nh
		r.C["clones"]++
		r.noteHeld(h)
		return r.iterOps(s.ID2, nh, s.IOps)
	case "iterclose":
		if h := r.iters[s.ID]; h != nil {
			delete(r.iters, s.ID)
			if err := closeIter(h); err != nil {
				return fmt.Errorf("iterator Close: unexpected error: %v", err)
			}
		}
	case "ibnew":
		if r.batches[s.ID] == nil {
			r.batches[s.ID] = &batchH{b: r.DB.NewIndexedBatch()}
			r.C["ibatches"]++
		}
	case "ibop":
		b := r.batches[s.ID]
		if b == nil {
			return nil
		}
		for _, o := range s.Ops {
			if o.K == "sdel" || (o.K == "delsized" && r.fmv() < pebble.FormatDeleteSizedAndObsolete) {
				o.K = "del"
			}
			if err := applyOp(b.b, o, nil); err != nil {
				return fmt.Errorf("indexed batch op %s: unexpected error: %v", o, err)
			}
			b.ops = append(b.ops, o)
			r.L["ibop="+o.K] = true
		}
	case "ibcommit":
		b := r.batches[s.ID]
		if b == nil {
			return nil
		}
		for id, h := range r.iters {
			if h.batch == b {
				if err := closeIter(h); err != nil {
					return fmt.Errorf("iterator Close: %v", err)
				}
				delete(r.iters, id)
			}
		}
		delete(r.batches, s.ID)
		next := r.Latest().Apply(b.ops)
		r.begin(next)
		defer r.abort()
		if err := b.b.Commit(r.wo(s.Sync)); err != nil {
			return fmt.Errorf("Commit: unexpected error: %v", err)
		}
		if err := b.b.Close(); err != nil {
			return fmt.Errorf("batch Close: %v", err)
		}
		r.commit(b.ops, next, s.Sync && r.walOn())
		r.L["ibcommit"] = true
	case "ibclose":
		b := r.batches[s.ID]
		if b == nil {
			return nil
		}
		for id, h := range r.iters {
			if h.batch == b {
				if err := closeIter(h); err != nil {
					return fmt.Errorf("iterator Close: %v", err)
				}
				delete(r.iters, id)
			}
		}
		delete(r.batches, s.ID)
		if err := b.b.Close(); err != nil {
			return fmt.Errorf("batch Close: %v", err)
		}
		r.L["ibclose-uncommitted"] = true
	default:
		if f := extraSteps[s.K]; f != nil {
			return f(r, s)
		}
		return fmt.Errorf("harness: unknown step kind %q", s.K)
	}
	return nil
}

// extraSteps lets other files register additional step kinds.
var extraSteps = map[string]func(*Runner, Step) error{}

func (r *Runner) noteExcise(a, b string) {
	for _, s := range r.snaps {
		s.excised = append(s.excised, [2]string{a, b})
	}
}

// noteRead counts reads that the non-triviality rules refer to.
func (r *Runner) noteRead(rd *reader) {
	switch {
	case strings.HasPrefix(rd.what, "snapshot"):
		r.C["snap-reads"]++
		if rd.st != r.Latest() && !rd.st.Equal(r.Latest()) {
			r.C["snap-reads-after-write"]++
		}
	case strings.HasPrefix(rd.what, "batch"):
		if len(r.Latest().Points) > 0 {
			r.C["batch-reads"]++
		}
	case strings.HasPrefix(rd.what, "efos"):
		r.C["efos-reads"]++
		if rd.st != r.Latest() && !rd.st.Equal(r.Latest()) {
			r.C["efos-reads-after-write"]++
		}
	}
}

// noteHeld records that an iterator created in an earlier step is used again;
// used by the "pinned iterator" non-triviality rules.
func (r *Runner) noteHeld(h *iterH) {
	r.C["held-iter-ops"]++
}

func (r *Runner) iterOps(id int, h *iterH, ops []IterOp) error {
	name := fmt.Sprintf("iter#%d", id)
	for _, op := range ops {
		// ops that would move a restricted iterator's bounds are skipped
		if (op.Op == "setbounds" || op.Op == "setopts") && op.Opts != nil {
			if rd := r.restrictionOf(h); rd != nil && !rd.readable(boundsAfter(h.m.o, op)) {
				continue
			}
		}
		skipped, err := r.iterApply(name, h, op)
		if err != nil {
			return err
		}
		if skipped {
			r.C["iterops-skipped"]++
		}
	}
	return nil
}

func boundsAfter(cur IterOpts, op IterOp) IterOpts {
	n := *op.Opts
	if op.Op == "setbounds" {
		k := cur
		k.Lower, k.Upper = n.Lower, n.Upper
		return k
	}
	return n
}

// restrictionOf returns the reader restrictions that apply to h (snapshots with
// later excises, EFOS ranges); nil if unrestricted.
func (r *Runner) restrictionOf(h *iterH) *reader {
	if h.snap != nil && len(h.snap.excised) > 0 {
		return &reader{excised: h.snap.excised}
	}
	if h.ef != nil {
		return &reader{ranges: h.ef.ranges}
	}
	return nil
}

// scan performs a full forward or backward scan and compares with the model.
func (r *Runner) scan(rd *reader, o IterOpts, reverse bool) error {
	it, err := rd.newIter(r.iterOptions(o))
	if err != nil {
		return fmt.Errorf("NewIter: unexpected error: %v", err)
	}
	h := &iterH{it: it, m: NewIterModel(rd.st, o), base: rd.st, batch: rd.batch}
	r.C["masked-points-hidden"] += h.m.hiddenCount()
	name := rd.what + " scan"
	first, step := "first", "next"
	if reverse {
		first, step = "last", "prev"
	}
	var ferr error
	if _, ferr = r.iterApply(name, h, IterOp{Op: first}); ferr == nil {
		for h.st == stValid {
			if _, ferr = r.iterApply(name, h, IterOp{Op: step}); ferr != nil {
				break
			}
		}
	}
	cerr := closeIter(h)
	if ferr != nil {
		return ferr
	}
	if cerr != nil {
		return fmt.Errorf("%s: iterator Close: unexpected error %v", name, cerr)
	}
	r.C["scans"]++
	return nil
}

func (r *Runner) stepIngest(ctx context.Context, s Step) (err error) {
	excise := s.K == "ingestexcise"
	if excise && (r.fmv() < pebble.FormatVirtualSSTables || s.A == "" || cmpKey(s.A, s.B) >= 0) {
		return nil
	}
	var tables [][]Op
	for _, t := range s.Tables {
		if len(t) > 0 {
			tables = append(tables, t)
		}
	}
	if len(tables) == 0 {
		return nil
	}
	var paths []string
	var locals pebble.LocalSSTables
	withBlobs := s.Blobs && r.fmv() >= pebble.FormatIngestBlobFiles && onlySets(tables)
	for _, t := range tables {
		if withBlobs {
			l, err := r.writeTableBlobs(t)
			if err != nil {
				return err
			}
			locals = append(locals, l)
			continue
		}
		p, err := r.writeTable(t)
		if err != nil {
			return err
		}
		paths = append(paths, p)
	}
	f0, _, _ := r.Ev.snapshotCounts()
	r.Ev.mu.Lock()
	fi0 := r.Ev.FlushableIng
	r.Ev.mu.Unlock()
	exA, exB := "", ""
	if excise {
		exA, exB = s.A, s.B
	}
	next := r.Latest().ApplyIngest(tables, exA, exB)
	r.begin(next)
	defer r.abort()
	wasDurable := r.Durable == len(r.Versions)-1
	var race *efosRace
	switch {
	case withBlobs:
		var span pebble.KeyRange
		if excise {
			race = r.startEFOSRace(s)
			span = pebble.KeyRange{Start: []byte(s.A), End: []byte(s.B)}
		}
		_, err = r.DB.IngestAndExciseWithBlobs(ctx, locals, nil, nil, span)
		r.L["ingest-with-blobs"] = true
	case excise:
		race = r.startEFOSRace(s)
		_, err = r.DB.IngestAndExcise(ctx, paths, nil, nil, pebble.KeyRange{Start: []byte(s.A), End: []byte(s.B)})
	default:
		err = r.DB.Ingest(ctx, paths)
	}
	if err != nil {
		race.abandon()
		return fmt.Errorf("unexpected error: %v", err)
	}
	defer func() {
		if rerr := race.resolve("IngestAndExcise"); rerr != nil && err == nil {
			err = rerr
		}
	}()
	if excise {
		r.sdNote(Op{K: "delrange", A: s.A, B: s.B})
		r.noteExcise(s.A, s.B)
		r.L["ingest-excise"] = true
	}
	// A successful ingestion is durable; earlier unsynced WAL writes are not
	// made durable by it, so the durable point only advances when nothing was
	// pending durability.
	r.push(next, wasDurable)
	for _, t := range tables {
		for _, o := range t {
			// rangedels first (they do not cover same-ingest points), then points
			if o.K == "delrange" {
				r.sdNote(o)
			}
		}
	}
	for _, t := range tables {
		for _, o := range t {
			if o.K != "delrange" {
				r.sdNote(o)
			}
		}
	}
	_ = f0
	_ = fi0
	r.C["ingests"]++
	r.L["ingest"] = true
	return nil
}

// FinalCheck compares the complete latest state (points via Get and scans in
// both directions over points and range keys) with the model.
func (r *Runner) FinalCheck() error {
	rd := r.reader("db", 0)
	keys := map[string]bool{}
	for _, st := range r.Versions {
		for k := range st.Points {
			keys[k] = true
		}
	}
	sorted := make([]string, 0, len(keys))
	for k := range keys {
		sorted = append(sorted, k)
	}
	sort.Strings(sorted)
	for _, k := range sorted {
		if err := checkGet("final db", rd.get, rd.st, k); err != nil {
			return err
		}
	}
	for _, rev := range []bool{false, true} {
		if err := r.scan(rd, IterOpts{KT: KTBoth}, rev); err != nil {
			return fmt.Errorf("final %v", err)
		}
	}
	if err := r.scan(rd, IterOpts{KT: KTPoints}, false); err != nil {
		return fmt.Errorf("final %v", err)
	}
	return nil
}

var _ = bytes.Compare
