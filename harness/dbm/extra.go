package dbm

import (
	"context"
	"fmt"
	"sort"
	"strings"
	"sync"

	"github.com/cockroachdb/pebble"
	"github.com/cockroachdb/pebble/vfs"
	"github.com/cockroachdb/pebble/vfs/errorfs"
)

func init() {
	extraSteps["crashrestart"] = stepCrashRestart
	extraSteps["orgd"] = stepORGD
	extraSteps["ratchet"] = stepRatchet
	extraSteps["checkpoint"] = stepCheckpoint
	extraGen["crashrestart"] = func(g *gen, label string, s *Step) bool {
		s.N = rapidSurv(g, label)
		// after a crash the generator no longer knows which prefix survived:
		// treat every key as touched for the SingleDelete contract.
		for _, p := range Prefixes {
			for sfx := 0; sfx <= MaxSuffix; sfx++ {
				g.sd[mkKey(p, sfx)] = &sdState{sets: 2}
			}
		}
		g.snaps, g.iters, g.ibs, g.efos = nil, nil, nil, nil
		g.unsyncd = false
		return true
	}
	extraGen["orgd"] = func(g *gen, label string, s *Step) bool {
		s.Flag = drawInt(g, label+"viaopts", 0, 2) == 0
		s.N = drawInt(g, label+"pos", 0, 1)
		return true
	}
	extraGen["ratchet"] = func(g *gen, label string, s *Step) bool {
		cur := int(g.fmv())
		tgt := cur + drawInt(g, label+"d", -1, 6)
		if tgt > int(pebble.FormatNewest) {
			tgt = int(pebble.FormatNewest)
		}
		if tgt < int(pebble.FormatMinSupported) {
			tgt = int(pebble.FormatMinSupported)
		}
		s.N = tgt
		if tgt > cur {
			g.fmvNow = tgt // later ops may use newly enabled features
			if g.p.CrashGen != nil && drawInt(g, label+"fault", 0, 2) == 0 {
				// fail the creation of one of the marker files of this ratchet
				// (each version step moves the marker once), mostly the last one
				s.Flag = true
				steps := tgt - cur
				s.ID2 = steps
				if drawInt(g, label+"flast", 0, 2) == 0 {
					s.ID2 = drawInt(g, label+"fk", 1, steps)
				}
			}
		}
		return true
	}
	extraGen["checkpoint"] = func(g *gen, label string, s *Step) bool {
		s.Flag = drawInt(g, label+"fw", 0, 1) == 1
		if drawInt(g, label+"restrict", 0, 2) == 0 {
			a, b := g.span(label + "sp")
			s.Spans = [][2]string{{a, b}}
		}
		if drawInt(g, label+"during", 0, 2) == 0 {
			// commits performed while the Checkpoint call is in progress
			s.N = drawInt(g, label+"at", 0, 6)
			if g.enabled("ingest") && !(g.p.DurableIngest && g.unsyncd) && drawInt(g, label+"ding", 0, 1) == 0 {
				s.Tables = g.tables(label + "dt")
				if len(s.Tables) > 0 {
					g.st = g.st.ApplyIngest(s.Tables, "", "")
					for _, t := range s.Tables {
						for _, o := range t {
							g.sdNote(o)
						}
					}
				}
			}
			n := drawInt(g, label+"dn", 1, 3)
			for i := 0; i < n; i++ {
				o := g.writeOp(fmt.Sprintf("%sdw%d", label, i), false)
				s.Ops = append(s.Ops, o)
				g.sdNote(o)
			}
			s.Sync = g.drawSync(label + "ds")
			g.st = g.st.Apply(s.Ops)
			g.memDirty = true
		}
		return true
	}
}

func stepCrashRestart(r *Runner, s Step) error {
	cr := r.crash
	if cr == nil {
		return nil
	}
	idx := cr.n.Load()
	lo, cands := r.Candidates()
	keep, cnt := keepFn(s.N, idx)
	img := cr.mem.VerifCrashClone(keep)
	// The process "dies": the old instance is shut down (its file system is no
	// longer the store) and the plan continues on the crash image.
	cr.off.Store(true)
	if err := r.closeHandles(); err != nil {
		return err
	}
	if err := r.DB.Close(); err != nil {
		return fmt.Errorf("closing the abandoned instance: %v", err)
	}
	r.DB = nil
	cr.mu.Lock()
	cr.mem = img
	cr.mu.Unlock()
	r.FS = errorfs.Wrap(img, errorfs.InjectorFunc(cr.inject))
	if r.Plan.Sched != nil {
		r.FS = newSchedFS(r.FS, r.Plan.Sched)
	}
	cr.off.Store(false)
	where := fmt.Sprintf("crash-and-continue at FS op #%d, survival mode %d (%d of %d unsynced items kept)", idx, s.N, cnt[1], cnt[0])
	if err := r.Open(); err != nil {
		return fmt.Errorf("%s: reopening fails: %v", where, err)
	}
	got, err := DumpState(r.DB)
	if err != nil {
		return fmt.Errorf("%s: reading the recovered DB fails: %v", where, err)
	}
	match := -1
	for i := len(cands) - 1; i >= 0; i-- {
		if got.Equal(cands[i]) {
			match = i
			break
		}
	}
	if match < 0 {
		return fmt.Errorf("%s: recovered state is none of the %d permitted states (durable version %d .. newest):%s", where, len(cands), lo, describeDiff(got, cands))
	}
	r.vmu.Lock()
	r.Versions = []*State{cands[match]}
	r.Durable, r.Pending = 0, nil
	r.vmu.Unlock()
	// SingleDelete contract: which writes of the ambiguous window survived is
	// only known now; be conservative for every key.
	for _, p := range Prefixes {
		for sfx := 0; sfx <= MaxSuffix; sfx++ {
			r.sd[mkKey(p, sfx)] = &sdState{sets: 2}
		}
	}
	r.C["crash-restarts"]++
	if len(cands) > 1 {
		r.C["crash-restarts-ambiguous"]++
	}
	r.L["crash-restart"] = true
	return nil
}

// DebugORGD prints the states on an ORGD mismatch (development aid).
var DebugORGD bool

func stepORGD(r *Runner, s Step) error {
	cr := r.crash
	if cr == nil {
		return nil
	}
	r.Wait()
	var it *pebble.Iterator
	var err error
	if s.Flag {
		// an ordinary iterator, positioned, then switched to durable-only reads
		// through SetOptions: it must then behave like a fresh durable iterator.
		it, err = r.DB.NewIter(&pebble.IterOptions{KeyTypes: pebble.IterKeyTypePointsAndRanges})
		if err == nil {
			if s.N%2 == 0 {
				it.First()
			} else {
				it.Last()
			}
			it.SetOptions(&pebble.IterOptions{OnlyReadGuaranteedDurable: true, KeyTypes: pebble.IterKeyTypePointsAndRanges})
			r.C["orgd-via-setoptions"]++
		}
	} else {
		it, err = r.DB.NewIter(&pebble.IterOptions{OnlyReadGuaranteedDurable: true, KeyTypes: pebble.IterKeyTypePointsAndRanges})
	}
	if err != nil {
		return fmt.Errorf("NewIter(OnlyReadGuaranteedDurable): %v", err)
	}
	idx := cr.n.Load()
	lo, cands := r.Candidates()
	keep, cnt := keepFn(0, idx)
	img := &crashImage{fs: cr.mem.VerifCrashClone(keep), idx: idx, op: "orgd iterator opened", surv: 0, step: r.stepIdx, lo: lo, cands: cands, wal: r.walConfig()}
	img.nAsked, img.nKept = cnt[0], cnt[1]
	shown, err := DumpIter(it)
	if err != nil {
		return fmt.Errorf("OnlyReadGuaranteedDurable iterator: %v", err)
	}
	// smallest history index whose state equals what the iterator showed
	k1 := -1
	r.vmu.Lock()
	for i, v := range r.Versions {
		if v.Equal(shown) {
			k1 = i
			break
		}
	}
	nver := len(r.Versions)
	r.vmu.Unlock()
	if k1 < 0 && DebugORGD {
		fmt.Printf("SHOWN: %v %v\n", shown.SortedPoints(), shown.Spans())
		for i, v := range r.Versions {
			fmt.Printf("V%d: %v %v\n", i, v.SortedPoints(), v.Spans())
		}
	}
	if k1 < 0 {
		return fmt.Errorf("OnlyReadGuaranteedDurable iterator shows a state that is no prefix of the history (%d versions):%s", nver, describeDiff(shown, cands))
	}
	rel, err := r.checkImage(img)
	if err != nil {
		return err
	}
	k2 := lo + rel
	if k1 > k2 {
		return fmt.Errorf("OnlyReadGuaranteedDurable iterator showed version %d of the history but a crash at that moment (only synced data survives) recovers version %d, which does not contain it", k1, k2)
	}
	r.C["orgd-reads"]++
	if k1 > 0 && k1 < nver-1 {
		r.C["orgd-reads-strict-prefix"]++
	}
	return nil
}

func stepRatchet(r *Runner, s Step) error {
	cur := r.DB.FormatMajorVersion()
	tgt := pebble.FormatMajorVersion(s.N)
	if tgt > cur {
		r.vmu.Lock()
		r.FMVPending = int(tgt)
		r.vmu.Unlock()
	}
	faulted := false
	if s.Flag && r.crash != nil && tgt > cur {
		// one transient I/O error: the creation of the ID2-th format-version marker
		// file written by this ratchet fails.
		r.crash.armFault("marker.format-version", max(1, s.ID2))
	}
	err := r.DB.RatchetFormatMajorVersion(tgt)
	if s.Flag && r.crash != nil && tgt > cur {
		faulted = r.crash.disarmFault()
	}
	if faulted && err != nil {
		// The documented outcome of a failed ratchet is an error; the version on
		// disk is whatever step completed. Retry without faults: it must succeed
		// and make the target durable.
		r.C["ratchet-failed-by-injected-fault"]++
		if now := r.DB.FormatMajorVersion(); now < cur {
			return fmt.Errorf("failed ratchet lowered the version from %d to %d", cur, now)
		}
		err = r.DB.RatchetFormatMajorVersion(tgt)
		if err != nil {
			return fmt.Errorf("RatchetFormatMajorVersion(%d) retried after an injected marker-creation error: unexpected error: %v", tgt, err)
		}
		r.C["ratchet-retried-after-fault"]++
	}
	after := r.DB.FormatMajorVersion()
	switch {
	case tgt < cur:
		if err == nil {
			return fmt.Errorf("RatchetFormatMajorVersion(%d) below the current version %d did not fail", tgt, cur)
		}
		if after != cur {
			return fmt.Errorf("failed ratchet changed the version from %d to %d", cur, after)
		}
		r.C["ratchet-lower-rejected"]++
	default:
		if err != nil {
			return fmt.Errorf("RatchetFormatMajorVersion(%d) from %d: unexpected error: %v", tgt, cur, err)
		}
		if after < tgt {
			return fmt.Errorf("after RatchetFormatMajorVersion(%d) the DB reports version %d", tgt, after)
		}
		r.vmu.Lock()
		r.FMVDurable = int(after)
		r.FMVPending = 0
		r.vmu.Unlock()
		if tgt > cur {
			r.C["ratchets"]++
			r.L[fmt.Sprintf("ratchet-crosses=%d", crossed(int(cur), int(tgt)))] = true
		}
	}
	return nil
}

// crossed counts the versions with a real migration step between two versions.
func crossed(from, to int) int {
	n := 0
	for _, v := range []pebble.FormatMajorVersion{pebble.FormatPrePebblev1MarkedCompacted, pebble.FormatFlushableIngestExcises, pebble.FormatColumnarBlocks,
		pebble.FormatWALSyncChunks, pebble.FormatTableFormatV6, pebble.FormatValueSeparation, pebble.FormatRowblkMarkedForCompaction} {
		if int(v) > from && int(v) <= to {
			n++
		}
	}
	return n
}

func stepCheckpoint(r *Runner, s Step) error {
	ctx := context.Background()
	_ = ctx
	r.ckptN++
	dir := fmt.Sprintf("ckpt%d", r.ckptN)
	var opts []pebble.CheckpointOption
	if s.Flag && r.walOn() {
		opts = append(opts, pebble.WithFlushedWAL())
	}
	var spans []pebble.CheckpointSpan
	for _, sp := range s.Spans {
		spans = append(spans, pebble.CheckpointSpan{Start: []byte(sp[0]), End: []byte(sp[1])})
	}
	if len(spans) > 0 {
		opts = append(opts, pebble.WithRestrictToSpans(spans))
	}
	lo, _ := r.Candidates()
	vBefore := len(r.Versions) - 1
	// Optionally commit (an ingestion, then a batch) from inside the Checkpoint
	// call: at the N-th creation/link the checkpoint performs in its destination
	// directory (all of them happen after Checkpoint has released the DB locks).
	// The checkpoint must still be a consistent prefix: the state before, between
	// or after these commits.
	var nestedErr error
	if len(s.Ops) > 0 || len(s.Tables) > 0 {
		cnt, fired := 0, false
		var mu sync.Mutex
		r.fsHook = func(kind, path string) {
			if !strings.HasPrefix(path, dir) {
				return
			}
			mu.Lock()
			cnt++
			fire := !fired && cnt > s.N
			if fire {
				fired = true
			}
			mu.Unlock()
			if !fire {
				return
			}
			if len(s.Tables) > 0 {
				if err := r.step(Step{K: "ingest", Tables: s.Tables}); err != nil {
					nestedErr = fmt.Errorf("ingest during Checkpoint: %v", err)
					return
				}
			}
			if len(s.Ops) > 0 {
				if err := r.step(Step{K: "write", Ops: s.Ops, Sync: s.Sync}); err != nil {
					nestedErr = fmt.Errorf("commit during Checkpoint: %v", err)
					return
				}
			}
			r.C["checkpoints-with-commits-during"]++
		}
	}
	err := r.DB.Checkpoint(dir, opts...)
	r.fsHook = nil
	if err != nil {
		return fmt.Errorf("Checkpoint: unexpected error: %v", err)
	}
	if nestedErr != nil {
		return nestedErr
	}
	if s.Flag && r.walOn() && vBefore > lo {
		// WithFlushedWAL: everything committed before the call is in the checkpoint.
		lo = vBefore
	}
	if s.Flag && r.walOn() && len(s.Ops) == 0 && len(s.Tables) == 0 {
		r.markDurable()
	}
	cands := r.candidatesFrom(lo)
	// Open the checkpoint as its own DB (same FS).
	lg := &recLogger{}
	o := BuildOptions(r.Plan.Opt, r.FS, nil, lg)
	o.WALDir = "" // the checkpoint keeps its WALs inside its own directory
	cdb, err := pebble.Open(dir, o)
	if err != nil {
		return fmt.Errorf("opening the checkpoint fails: %v", err)
	}
	var got *State
	if len(s.Spans) == 0 {
		got, err = DumpState(cdb)
	} else {
		// Outside the restricted spans the checkpoint holds whatever the copied
		// tables happen to contain (possibly fragments cut at table boundaries):
		// only the spans are read, each through a bounded iterator.
		got = NewState()
		for _, sp := range s.Spans {
			var it *pebble.Iterator
			it, err = cdb.NewIter(&pebble.IterOptions{KeyTypes: pebble.IterKeyTypePointsAndRanges, LowerBound: []byte(sp[0]), UpperBound: []byte(sp[1])})
			if err != nil {
				break
			}
			var part *State
			if part, err = DumpIter(it); err != nil {
				break
			}
			for k, v := range part.Points {
				got.Points[k] = v
			}
			for i := range part.RK {
				if len(part.RK[i]) > 0 {
					got.RK[i] = part.RK[i]
				}
			}
		}
	}
	cerr := cdb.Close()
	if err != nil {
		return fmt.Errorf("reading the checkpoint fails: %v", err)
	}
	if cerr != nil {
		return fmt.Errorf("closing the checkpoint fails: %v", cerr)
	}
	restrict := func(st *State) *State {
		if len(s.Spans) == 0 {
			return st
		}
		n := NewState()
		for k, v := range st.Points {
			for _, sp := range s.Spans {
				if inSpan(k, sp[0], sp[1]) {
					n.Points[k] = v
				}
			}
		}
		for i := range st.RK {
			for _, sp := range s.Spans {
				if cmpKey(Prefixes[i], sp[0]) >= 0 && cmpKey(Prefixes[i+1], sp[1]) <= 0 {
					n.RK[i] = st.RK[i]
				}
			}
		}
		return n
	}
	g := restrict(got)
	ok := false
	for i := len(cands) - 1; i >= 0; i-- {
		if g.Equal(restrict(cands[i])) {
			ok = true
			break
		}
	}
	if !ok {
		var rc []*State
		for _, c := range cands {
			rc = append(rc, restrict(c))
		}
		return fmt.Errorf("checkpoint (flushedWAL=%v, spans=%v) opened to a state that is none of the %d permitted states (durable version %d .. newest):%s", s.Flag, s.Spans, len(cands), lo, describeDiff(g, rc))
	}
	r.C["checkpoints"]++
	if len(cands) > 1 {
		r.C["checkpoints-with-undurable-tail"]++
	}
	if len(s.Spans) > 0 {
		r.C["checkpoints-restricted"]++
	}
	return nil
}

// VersionSig returns the table numbers per level of the current version.
func VersionSig(db *pebble.DB) string {
	v := db.DebugCurrentVersion()
	var parts []string
	for l := range v.Levels {
		for f := range v.Levels[l].All() {
			parts = append(parts, fmt.Sprintf("L%d:%d", l, f.TableNum))
		}
	}
	sort.Strings(parts)
	return strings.Join(parts, " ")
}

var _ vfs.FS
