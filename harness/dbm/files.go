package dbm

import (
	"fmt"
	"sort"

	"github.com/cockroachdb/pebble/internal/base"
)

// checkFiles compares the store directory with the current version.
//
// live: every table backing and blob file referenced by the current version
// exists. dead (only when no reader can pin an older version and background
// work is quiescent): there is no table or blob file that the current version
// does not reference, at most 1+NumPrevManifest MANIFESTs, one OPTIONS file.
func checkFiles(r *Runner, dead bool) error {
	v := r.DB.DebugCurrentVersion()
	wantT := map[base.DiskFileNum]bool{}
	wantB := map[base.DiskFileNum]bool{}
	for l := range v.Levels {
		for f := range v.Levels[l].All() {
			wantT[f.TableBacking.DiskFileNum] = true
		}
	}
	for b := range v.BlobFiles.All() {
		wantB[b.Physical.FileNum] = true
	}
	names, err := r.FS.List(r.Dir)
	if err != nil {
		return fmt.Errorf("listing the store directory: %v", err)
	}
	sort.Strings(names)
	haveT := map[base.DiskFileNum]bool{}
	haveB := map[base.DiskFileNum]bool{}
	manifests, options, logs := 0, 0, 0
	for _, n := range names {
		ft, num, ok := base.ParseFilename(r.FS, n)
		if !ok {
			continue
		}
		switch ft {
		case base.FileTypeTable:
			haveT[num] = true
		case base.FileTypeBlob:
			haveB[num] = true
		case base.FileTypeManifest:
			manifests++
		case base.FileTypeOptions:
			options++
		case base.FileTypeLog:
			logs++
		}
	}
	for n := range wantT {
		if !haveT[n] {
			return fmt.Errorf("table file %s is referenced by the current version but missing from the directory %v", n, names)
		}
	}
	for n := range wantB {
		if !haveB[n] {
			return fmt.Errorf("blob file %s is referenced by the current version but missing from the directory %v", n, names)
		}
	}
	r.C["files-live-checks"]++
	if !dead {
		return nil
	}
	for n := range haveT {
		if !wantT[n] {
			return fmt.Errorf("obsolete table file %s lingers: no reader is open, deletions are drained, and the current version does not reference it (dir %v)", n, names)
		}
	}
	for n := range haveB {
		if !wantB[n] {
			return fmt.Errorf("obsolete blob file %s lingers: no reader is open, deletions are drained, and the current version does not reference it (dir %v)", n, names)
		}
	}
	if max := 1 + r.Opts.NumPrevManifest; manifests > max {
		return fmt.Errorf("%d MANIFEST files in the directory, at most %d expected (dir %v)", manifests, max, names)
	}
	if options != 1 {
		return fmt.Errorf("%d OPTIONS files in the directory, exactly 1 expected (dir %v)", options, names)
	}
	// WAL files are recycled by design; only a generous bound is checked.
	if !r.Plan.Opt.WALDir && logs > r.Plan.Opt.MemStop+4 {
		return fmt.Errorf("%d WAL files in the directory with a memtable queue limit of %d (dir %v)", logs, r.Plan.Opt.MemStop, names)
	}
	r.C["files-dead-checks"]++
	return nil
}

func (r *Runner) noReaders() bool {
	return len(r.iters) == 0 && len(r.snaps) == 0 && len(r.efos) == 0
}
