package dbm

import (
	"fmt"
	"runtime"
	"sort"
	"time"

	"github.com/cockroachdb/pebble/internal/base"
)

// checkFiles compares the store directory with the current version.
//
// live: every table backing and blob file referenced by the current version
// exists. dead (only when no reader can pin an older version and background
// work is quiescent): there is no table or blob file that the current version
// does not reference, at most 1+NumPrevManifest MANIFESTs, one OPTIONS file.
func checkFiles(r *Runner, dead bool) error {
	v := r.DB.DebugCurrentVersion()
	wantT := map[base.DiskFileNum]bool{}
	wantB := map[base.DiskFileNum]bool{}
	for l := range v.Levels {
		for f := range v.Levels[l].All() {
			wantT[f.TableBacking.DiskFileNum] = true
		}
	}
	for b := range v.BlobFiles.All() {
		wantB[b.Physical.FileNum] = true
	}
	names, err := r.FS.List(r.Dir)
	if err != nil {
		return fmt.Errorf("listing the store directory: %v", err)
	}
	sort.Strings(names)
	haveT := map[base.DiskFileNum]bool{}
	haveB := map[base.DiskFileNum]bool{}
	manifests, options, logs := 0, 0, 0
	for _, n := range names {
		ft, num, ok := base.ParseFilename(r.FS, n)
		if !ok {
			continue
		}
		switch ft {
		case base.FileTypeTable:
			haveT[num] = true
		case base.FileTypeBlob:
			haveB[num] = true
		case base.FileTypeManifest:
			manifests++
		case base.FileTypeOptions:
			options++
		case base.FileTypeLog:
			logs++
		}
	}
	for n := range wantT {
		if !haveT[n] {
			return fmt.Errorf("table file %s is referenced by the current version but missing from the directory %v", n, names)
		}
	}
	for n := range wantB {
		if !haveB[n] {
			return fmt.Errorf("blob file %s is referenced by the current version but missing from the directory %v", n, names)
		}
	}
	r.C["files-live-checks"]++
	if !dead {
		return nil
	}
	for n := range haveT {
		if !wantT[n] {
			if DebugLinger {
				var buf [1 << 20]byte
				n0 := runtime.Stack(buf[:], true)
				fmt.Printf("GOROUTINES AT LINGER:\n%s\n", buf[:n0])
				time.Sleep(10 * time.Second)
				r.Wait()
				names2, _ := r.FS.List(r.Dir)
				sort.Strings(names2)
				fmt.Printf("LINGER DEBUG: after sleeping 10s (virtual) the directory is %v\n", names2)
			}
			return fmt.Errorf("obsolete table file %s lingers: no reader is open, deletions are drained, and the current version does not reference it (dir %v)", n, names)
		}
	}
	for n := range haveB {
		if !wantB[n] {
			return fmt.Errorf("obsolete blob file %s lingers: no reader is open, deletions are drained, and the current version does not reference it (dir %v)", n, names)
		}
	}
	if max := 1 + r.Opts.NumPrevManifest; manifests > max {
		return fmt.Errorf("%d MANIFEST files in the directory, at most %d expected (dir %v)", manifests, max, names)
	}
	if options != 1 {
		return fmt.Errorf("%d OPTIONS files in the directory, exactly 1 expected (dir %v)", options, names)
	}
	// WAL files are recycled by design; only a generous bound is checked.
	if !r.Plan.Opt.WALDir && logs > r.Plan.Opt.MemStop+4 {
		return fmt.Errorf("%d WAL files in the directory with a memtable queue limit of %d (dir %v)", logs, r.Plan.Opt.MemStop, names)
	}
	r.C["files-dead-checks"]++
	return nil
}

// DebugLinger dumps goroutines and re-lists the directory after a virtual sleep
// when an obsolete file lingers (debugging aid).
var DebugLinger bool

func (r *Runner) noReaders() bool {
	return len(r.iters) == 0 && len(r.snaps) == 0 && len(r.efos) == 0
}
