package dbm

import (
	"fmt"

	"github.com/cockroachdb/pebble"
	"pgregory.net/rapid"
)

// Profile weights the plan generator for one property.
type Profile struct {
	Name     string
	MinSteps int
	MaxSteps int
	// W: step kind -> weight. Kinds: write, batch, bigbatch, flush, compact, wait,
	// restart, ingest, ingestexcise, excise, snap, snapclose, get, scan, iternew,
	// iterop, iterclone, iterclose, ibnew, ibop, ibcommit, ibclose, ibread, efos,
	// efoswait, efosclose, snapread, efosread
	W map[string]int
	// OpW: write op kind -> weight (set del delsized sdel delrange merge logdata rkset rkunset rkdel)
	OpW map[string]int
	// IterOpsMax is the maximum number of iterator ops per iternew/iterop step.
	IterOpsMax int
	// Opt tweaks the drawn options.
	Opt func(t *rapid.T, o *OptPlan)
	// NoRangeKeys disables range keys and combined iteration entirely.
	NoRangeKeys bool
	// Masking enables range-key masking options on iterators.
	Masking bool
	// MaxSnaps etc.
	MaxSnaps, MaxIters, MaxBatches, MaxEFOS int
	// CrashGen, if set, draws the crash plan of the case.
	CrashGen func(t *rapid.T, o OptPlan) *CrashPlan
	// DurableIngest makes the generator flush before an ingest/excise whenever
	// earlier commits are not yet durable (an ingestion becomes durable through
	// the MANIFEST while earlier unsynced WAL writes may be lost, so the
	// recovered state would not be a prefix of the history; see DESIGN.md §3.5).
	DurableIngest bool
	// SyncPct is the percentage of commits issued with Sync (default 25).
	SyncPct int
	// BigValues shifts the value-length distribution upwards (more flushes,
	// more files, deeper LSMs).
	BigValues bool
	// FlushBeforeIngest makes the generator flush before an ingest/excise
	// whenever anything was written since the last flush (the memtable may be
	// non-empty), whether or not those writes were synced. Used to exclude the
	// known finding C13/orgd-ingest-visible-without-earlier-unflushed-writes.
	FlushBeforeIngest bool
}

type wchoice struct {
	k string
	w int
}

func pick(t *rapid.T, label string, ws []wchoice) string {
	total := 0
	for _, c := range ws {
		total += c.w
	}
	if total == 0 {
		return ""
	}
	n := rapid.IntRange(0, total-1).Draw(t, label)
	for _, c := range ws {
		if n < c.w {
			return c.k
		}
		n -= c.w
	}
	return ws[len(ws)-1].k
}

// fixed order so that weights map to the same draws regardless of map order.
var stepOrder = []string{"write", "get", "scan", "batch", "flush", "iternew", "iterop", "iterclose", "compact", "wait", "crashrestart", "orgd",
	"snap", "snapread", "snapclose", "bigbatch", "ingest", "restart", "ingestexcise", "excise", "iterclone",
	"ibnew", "ibop", "ibread", "ibcommit", "ibclose", "efos", "efosread", "efoswait", "efosclose",
	"checkpoint", "ratchet", "scaninternal", "maint"}

var opOrder = []string{"set", "del", "merge", "delrange", "sdel", "delsized", "rkset", "rkunset", "rkdel", "logdata"}

type gen struct {
	t    *rapid.T
	p    Profile
	opt  OptPlan
	st   *State
	sd   map[string]*sdState
	nval int
	nid  int

	snaps   []int
	iters   []int
	ibs     []int
	efos    []int
	efosRg  map[int][][2]string
	iterOn  map[int]string
	iterEf  map[int]int
	ibOps   map[int][]Op
	steps   []Step
	unsyncd bool
	// memDirty: something was committed since the last flush.
	memDirty bool
	fmvNow   int
}

// preStructural inserts the flush that the profile demands before an
// ingest/excise (see Profile.DurableIngest, Profile.FlushBeforeIngest).
func (g *gen) preStructural() {
	if (g.p.DurableIngest && g.unsyncd) || (g.p.FlushBeforeIngest && g.memDirty) {
		g.steps = append(g.steps, Step{K: "flush", Flag: true})
		g.unsyncd = false
		g.memDirty = false
	}
}

func drawInt(g *gen, label string, lo, hi int) int { return rapid.IntRange(lo, hi).Draw(g.t, label) }

func rapidSurv(g *gen, label string) int {
	return rapid.SampledFrom([]int{0, 1, 2, 3, 5, 7, 11}).Draw(g.t, label+"surv")
}

func (g *gen) fmv() pebble.FormatMajorVersion {
	return pebble.FormatMajorVersion(max(g.opt.FMV, g.fmvNow))
}

func (g *gen) prefix(label string) string {
	// 70% among the first five prefixes to force collisions
	if rapid.IntRange(0, 9).Draw(g.t, label+"hot") < 7 {
		return Prefixes[rapid.IntRange(0, 4).Draw(g.t, label)]
	}
	return Prefixes[rapid.IntRange(0, len(Prefixes)-1).Draw(g.t, label)]
}

func (g *gen) key(label string) string {
	return mkKey(g.prefix(label), rapid.IntRange(0, MaxSuffix).Draw(g.t, label+"sfx"))
}

// span draws a non-empty span of bare prefixes.
func (g *gen) span(label string) (string, string) {
	i := rapid.IntRange(0, len(Prefixes)-2).Draw(g.t, label+"a")
	w := rapid.IntRange(1, 4).Draw(g.t, label+"w")
	j := min(i+w, len(Prefixes)-1)
	return Prefixes[i], Prefixes[j]
}

func (g *gen) value(label string) (string, int) {
	g.nval++
	tag := fmt.Sprintf("v%d", g.nval)
	cls := rapid.IntRange(0, 19).Draw(g.t, label+"len")
	if g.p.BigValues && cls < 8 {
		cls += 10
	}
	vl := 0
	switch {
	case cls < 10:
		vl = 0
	case cls < 13:
		vl = rapid.IntRange(1, 12).Draw(g.t, label+"l1")
	case cls < 16:
		vl = rapid.IntRange(13, 80).Draw(g.t, label+"l2")
	case cls < 18:
		vl = rapid.IntRange(81, 700).Draw(g.t, label+"l3")
	case cls < 19:
		vl = rapid.IntRange(701, 5000).Draw(g.t, label+"l4")
	default:
		vl = 0
	}
	return tag, vl
}

func (g *gen) sdOK(k string) bool {
	s := g.sd[k]
	return s == nil || (s.sets <= 1 && !s.merged)
}

func (g *gen) sdNote(o Op) {
	get := func(k string) *sdState {
		s := g.sd[k]
		if s == nil {
			s = &sdState{}
			g.sd[k] = s
		}
		return s
	}
	switch o.K {
	case "set":
		get(o.A).sets++
	case "merge":
		get(o.A).merged = true
	case "del", "delsized", "sdel":
		delete(g.sd, o.A)
	case "delrange":
		for k := range g.sd {
			if inSpan(k, o.A, o.B) {
				delete(g.sd, k)
			}
		}
	}
}

// writeOp draws one write op. inBatchLongLived forbids sdel.
func (g *gen) writeOp(label string, longLived bool) Op {
	var ws []wchoice
	for _, k := range opOrder {
		w := g.p.OpW[k]
		if g.p.NoRangeKeys && (k == "rkset" || k == "rkunset" || k == "rkdel") {
			w = 0
		}
		if k == "delsized" && g.fmv() < pebble.FormatDeleteSizedAndObsolete {
			w = 0
		}
		if k == "sdel" && longLived {
			w = 0
		}
		ws = append(ws, wchoice{k, w})
	}
	k := pick(g.t, label+"kind", ws)
	o := Op{K: k}
	switch k {
	case "set", "merge":
		o.A = g.key(label + "k")
		o.V, o.VLen = g.value(label + "v")
	case "del":
		o.A = g.key(label + "k")
	case "delsized":
		o.A = g.key(label + "k")
		o.N = rapid.IntRange(0, 100).Draw(g.t, label+"n")
	case "sdel":
		o.A = g.key(label + "k")
		if !g.sdOK(o.A) {
			o.K = "del"
		}
	case "delrange", "rkdel":
		o.A, o.B = g.span(label + "sp")
	case "rkset":
		o.A, o.B = g.span(label + "sp")
		o.S = rapid.IntRange(1, 4).Draw(g.t, label+"rs")
		g.nval++
		o.V = fmt.Sprintf("r%d", g.nval)
	case "rkunset":
		o.A, o.B = g.span(label + "sp")
		o.S = rapid.IntRange(1, 4).Draw(g.t, label+"rs")
	case "logdata":
		g.nval++
		o.V = fmt.Sprintf("l%d", g.nval)
	}
	return o
}

func (g *gen) commitOps(ops []Op) {
	g.memDirty = true
	for _, o := range ops {
		g.sdNote(o)
	}
	g.st = g.st.Apply(ops)
}

func (g *gen) iterOpts(label string) IterOpts {
	o := IterOpts{}
	if !g.p.NoRangeKeys {
		o.KT = rapid.SampledFrom([]int{KTBoth, KTPoints, KTBoth, KTRanges}).Draw(g.t, label+"kt")
	}
	bk := func(l string) string {
		// mostly bare prefixes, sometimes suffixed keys
		if rapid.IntRange(0, 4).Draw(g.t, l+"sfxd") == 0 {
			return g.key(l)
		}
		return g.prefix(l)
	}
	switch rapid.IntRange(0, 5).Draw(g.t, label+"bounds") {
	case 0, 1:
	case 2:
		o.Lower = bk(label + "lo")
	case 3:
		o.Upper = bk(label + "hi")
	default:
		a, b := bk(label+"lo"), bk(label+"hi")
		if c := cmpKey(a, b); c > 0 {
			a, b = b, a
		} else if c == 0 {
			b = ""
		}
		o.Lower, o.Upper = a, b
	}
	if g.p.Masking && o.KT == KTBoth {
		if rapid.IntRange(0, 3).Draw(g.t, label+"maskon") > 0 {
			o.Mask = rapid.IntRange(1, MaxSuffix).Draw(g.t, label+"mask")
			o.MaskF = rapid.Bool().Draw(g.t, label+"maskf")
		}
	}
	return o
}

var iterOpOrder = []string{"next", "seekge", "prev", "first", "last", "seeklt", "seekprefixge", "nextprefix",
	"nextl", "prevl", "seekgel", "seekltl", "setbounds", "setopts"}
var iterOpW = map[string]int{"next": 30, "prev": 22, "seekge": 12, "seeklt": 8, "first": 4, "last": 4, "seekprefixge": 8,
	"nextprefix": 6, "nextl": 5, "prevl": 5, "seekgel": 3, "seekltl": 3, "setbounds": 3, "setopts": 2}

func (g *gen) iterOps(label string, n int, first bool) []IterOp {
	var ops []IterOp
	for i := 0; i < n; i++ {
		l := fmt.Sprintf("%s%d", label, i)
		var ws []wchoice
		for _, k := range iterOpOrder {
			w := iterOpW[k]
			if first && i == 0 {
				// start with an absolute op
				switch k {
				case "next", "prev", "nextprefix", "nextl", "prevl", "setbounds", "setopts":
					w = 0
				}
			}
			ws = append(ws, wchoice{k, w})
		}
		op := IterOp{Op: pick(g.t, l+"op", ws)}
		switch op.Op {
		case "seekge", "seeklt", "seekprefixge":
			op.Key = g.seekKey(l + "k")
		case "seekgel", "seekltl":
			op.Key = g.seekKey(l + "k")
			op.Limit = g.seekKey(l + "lim")
		case "nextl", "prevl":
			op.Limit = g.seekKey(l + "lim")
		case "setbounds", "setopts":
			o := g.iterOpts(l + "o")
			op.Opts = &o
		}
		ops = append(ops, op)
		if op.Op == "setbounds" || op.Op == "setopts" {
			// must be followed by an absolute op
			k := g.seekKey(l + "abs")
			ops = append(ops, IterOp{Op: rapid.SampledFrom([]string{"seekge", "first", "last", "seeklt", "seekprefixge"}).Draw(g.t, l+"absop"), Key: k})
		}
	}
	return ops
}

// seekKey draws a key from the universe or an immediate neighbour.
func (g *gen) seekKey(label string) string {
	k := g.key(label)
	switch rapid.IntRange(0, 11).Draw(g.t, label+"nb") {
	case 0:
		p, _ := splitKey(k)
		return p + "\x00" // immediate successor of the prefix
	case 1:
		return mkKey(g.prefix(label+"p2"), MaxSuffix+3) // suffix that sorts before all written ones
	}
	return k
}

func (g *gen) newID() int { g.nid++; return g.nid }

// drawSync draws the Sync flag of a commit and tracks whether undurable
// commits exist.
func (g *gen) drawSync(label string) bool {
	pct := g.p.SyncPct
	if pct == 0 {
		pct = 25
	}
	sync := rapid.IntRange(0, 99).Draw(g.t, label+"sync") < pct
	if !sync || g.opt.DisableWAL {
		g.unsyncd = true
	} else {
		g.unsyncd = false
	}
	return sync
}

func remove(l []int, id int) []int {
	out := l[:0:0]
	for _, x := range l {
		if x != id {
			out = append(out, x)
		}
	}
	return out
}

func (g *gen) table(label string, loIdx, hiIdx int) []Op {
	// keys with prefixes in Prefixes[loIdx:hiIdx] (hiIdx exclusive, >= loIdx+1)
	var ops []Op
	used := map[string]bool{}
	n := rapid.IntRange(1, 5).Draw(g.t, label+"n")
	for i := 0; i < n; i++ {
		l := fmt.Sprintf("%s%d", label, i)
		kind := pick(g.t, l+"kind", []wchoice{{"set", 10}, {"del", 3}, {"merge", 2}, {"delrange", 2},
			{"rkset", ifz(g.p.NoRangeKeys, 0, 2)}, {"rkunset", ifz(g.p.NoRangeKeys, 0, 1)}, {"rkdel", ifz(g.p.NoRangeKeys, 0, 1)}})
		switch kind {
		case "set", "del", "merge":
			k := mkKey(Prefixes[rapid.IntRange(loIdx, hiIdx-1).Draw(g.t, l+"p")], rapid.IntRange(0, MaxSuffix).Draw(g.t, l+"s"))
			if used[k] {
				continue
			}
			used[k] = true
			o := Op{K: kind, A: k}
			if kind != "del" {
				o.V, o.VLen = g.value(l + "v")
			}
			ops = append(ops, o)
		default:
			shi := hiIdx
			if shi >= len(Prefixes) {
				shi = len(Prefixes) - 1
			}
			if shi <= loIdx {
				continue
			}
			a := rapid.IntRange(loIdx, shi-1).Draw(g.t, l+"a")
			b := rapid.IntRange(a+1, shi).Draw(g.t, l+"b")
			o := Op{K: kind, A: Prefixes[a], B: Prefixes[b]}
			if kind == "delrange" {
				// range deletions of one table must not overlap (pre-fragmented input)
				ok := true
				for _, p := range ops {
					if p.K == "delrange" && cmpKey(p.A, o.B) < 0 && cmpKey(o.A, p.B) < 0 {
						ok = false
					}
				}
				if !ok {
					continue
				}
			}
			if kind == "rkset" || kind == "rkunset" {
				o.S = rapid.IntRange(1, 4).Draw(g.t, l+"rs")
				// the same suffix may not be set/unset twice over the same keyspan in one table
				ok := true
				for _, p := range ops {
					if (p.K == "rkset" || p.K == "rkunset") && p.S == o.S && cmpKey(p.A, o.B) < 0 && cmpKey(o.A, p.B) < 0 {
						ok = false
					}
				}
				if !ok {
					continue
				}
				if kind == "rkset" {
					g.nval++
					o.V = fmt.Sprintf("r%d", g.nval)
				}
			}
			ops = append(ops, o)
		}
	}
	return ops
}

func ifz(c bool, a, b int) int {
	if c {
		return a
	}
	return b
}

func (g *gen) tables(label string) [][]Op {
	nt := rapid.IntRange(1, 3).Draw(g.t, label+"nt")
	// split the prefix index range into nt disjoint intervals
	cuts := []int{0}
	for i := 1; i < nt; i++ {
		cuts = append(cuts, rapid.IntRange(cuts[len(cuts)-1]+1, len(Prefixes)-(nt-i)).Draw(g.t, fmt.Sprintf("%scut%d", label, i)))
	}
	cuts = append(cuts, len(Prefixes))
	// optionally narrow the whole ingest to a window to avoid always spanning everything
	var out [][]Op
	for i := 0; i < nt; i++ {
		lo, hi := cuts[i], cuts[i+1]
		if hi-lo > 2 && rapid.Bool().Draw(g.t, fmt.Sprintf("%snarrow%d", label, i)) {
			lo = rapid.IntRange(lo, hi-2).Draw(g.t, fmt.Sprintf("%snlo%d", label, i))
			hi = rapid.IntRange(lo+1, hi).Draw(g.t, fmt.Sprintf("%snhi%d", label, i))
		}
		t := g.table(fmt.Sprintf("%st%d", label, i), lo, hi)
		if len(t) > 0 {
			out = append(out, t)
		}
	}
	return out
}

// GenOptions draws a DB configuration.
func GenOptions(t *rapid.T, p Profile) OptPlan {
	fmvs := []int{int(pebble.FormatMinSupported), int(pebble.FormatDeleteSizedAndObsolete), int(pebble.FormatVirtualSSTables),
		int(pebble.FormatFlushableIngestExcises), int(pebble.FormatColumnarBlocks), int(pebble.FormatWALSyncChunks),
		int(pebble.FormatTableFormatV6), int(pebble.FormatValueSeparation), int(pebble.FormatExciseBoundsRecord),
		int(pebble.FormatV2BlobFiles), int(pebble.FormatBackingValueSize), int(pebble.FormatMarkForCompactionInVersionEdit),
		int(pebble.FormatIngestBlobFiles), int(pebble.FormatNewest), int(pebble.FormatNewest), int(pebble.FormatNewest)}
	o := OptPlan{
		FMV:               rapid.SampledFrom(fmvs).Draw(t, "fmv"),
		MemTableSize:      rapid.SampledFrom([]int{4 << 10, 8 << 10, 32 << 10, 256 << 10}).Draw(t, "mem"),
		MemStop:           rapid.IntRange(2, 4).Draw(t, "memstop"),
		L0Compaction:      rapid.IntRange(1, 4).Draw(t, "l0c"),
		L0CompactionFiles: rapid.SampledFrom([]int{1, 2, 4, 500}).Draw(t, "l0f"),
		LBaseMaxBytes:     rapid.SampledFrom([]int64{1 << 10, 8 << 10, 1 << 20}).Draw(t, "lbase"),
		TargetFileSize:    rapid.SampledFrom([]int64{64, 256, 1 << 10, 16 << 10}).Draw(t, "tfs"),
		BlockSize:         rapid.SampledFrom([]int{1, 32, 128, 1024, 4096}).Draw(t, "bs"),
		IndexBlockSize:    rapid.SampledFrom([]int{1, 64, 4096}).Draw(t, "ibs"),
		RestartInterval:   rapid.SampledFrom([]int{1, 2, 16}).Draw(t, "ri"),
		Compression:       rapid.IntRange(0, NumCompression-1).Draw(t, "comp"),
		Filter:            rapid.IntRange(0, NumFilter-1).Draw(t, "filt"),
		MaxManifest:       rapid.SampledFrom([]int64{1, 256, 4096, 128 << 20}).Draw(t, "maxman"),
		ConcurrencyMax:    rapid.IntRange(1, 3).Draw(t, "conc"),
		MultiLevel:        rapid.IntRange(0, 2).Draw(t, "ml"),
		FlushSplitBytes:   rapid.SampledFrom([]int64{0, 1, 1 << 10}).Draw(t, "fsb"),
		BundleSize:        rapid.SampledFrom([]int{16, 1, 4}).Draw(t, "bundle"),
		CacheSize:         rapid.SampledFrom([]int64{1 << 20, 1 << 10, 64 << 10}).Draw(t, "cache"),
	}
	o.DisableWAL = rapid.IntRange(0, 5).Draw(t, "nowal") == 0
	o.WALDir = rapid.IntRange(0, 3).Draw(t, "waldir") == 0
	o.DisableAutoCompaction = rapid.IntRange(0, 5).Draw(t, "noauto") == 0
	o.DisableIngestFlush = rapid.IntRange(0, 3).Draw(t, "noif") == 0
	o.IngestSplit = rapid.Bool().Draw(t, "isplit")
	o.DelOnlyExcise = rapid.Bool().Draw(t, "doe")
	o.ValueBlocks = rapid.Bool().Draw(t, "vb")
	if o.FMV >= int(pebble.FormatValueSeparation) && rapid.Bool().Draw(t, "valsep") {
		o.ValSep = true
		o.ValSepMinSize = rapid.SampledFrom([]int{4, 10, 32, 64}).Draw(t, "vsmin")
		o.ValSepDepth = rapid.IntRange(1, 5).Draw(t, "vsdepth")
		o.ValSepGarbageLow = rapid.SampledFrom([]int{5, 30, 100}).Draw(t, "vsglow")
	}
	if p.Opt != nil {
		p.Opt(t, &o)
	}
	return o
}

// Generate draws a complete plan for a profile.
func Generate(t *rapid.T, p Profile) Plan {
	g := &gen{t: t, p: p, st: NewState(), sd: map[string]*sdState{}, efosRg: map[int][][2]string{},
		iterOn: map[int]string{}, iterEf: map[int]int{}, ibOps: map[int][]Op{}}
	g.opt = GenOptions(t, p)
	var cp *CrashPlan
	if p.CrashGen != nil {
		cp = p.CrashGen(t, g.opt)
	}
	n := rapid.IntRange(p.MinSteps, p.MaxSteps).Draw(t, "nsteps")
	for i := 0; i < n; i++ {
		g.step(fmt.Sprintf("s%d", i))
	}
	return Plan{Profile: p.Name, Opt: g.opt, Steps: g.steps, Crash: cp}
}

func (g *gen) readerChoice(label string) (string, int) {
	// db mostly; snapshots / batches / efos if open
	var ws []wchoice
	ws = append(ws, wchoice{"db", 6})
	if len(g.snaps) > 0 {
		ws = append(ws, wchoice{"snap", 4})
	}
	if len(g.ibs) > 0 {
		ws = append(ws, wchoice{"batch", 4})
	}
	on := pick(g.t, label+"on", ws)
	switch on {
	case "snap":
		return on, rapid.SampledFrom(g.snaps).Draw(g.t, label+"id")
	case "batch":
		return on, rapid.SampledFrom(g.ibs).Draw(g.t, label+"id")
	}
	return "db", 0
}

func (g *gen) step(label string) {
	var ws []wchoice
	for _, k := range stepOrder {
		w := g.p.W[k]
		switch k {
		case "snap":
			if len(g.snaps) >= g.p.MaxSnaps {
				w = 0
			}
		case "snapclose", "snapread":
			if len(g.snaps) == 0 {
				w = 0
			}
		case "iternew":
			if len(g.iters) >= g.p.MaxIters {
				w = 0
			}
		case "iterop", "iterclose", "iterclone":
			if len(g.iters) == 0 || (k == "iterclone" && len(g.iters) >= g.p.MaxIters) {
				w = 0
			}
		case "ibnew":
			if len(g.ibs) >= g.p.MaxBatches {
				w = 0
			}
		case "ibop", "ibcommit", "ibclose", "ibread":
			if len(g.ibs) == 0 {
				w = 0
			}
		case "efos":
			if len(g.efos) >= g.p.MaxEFOS {
				w = 0
			}
		case "efosread", "efoswait", "efosclose":
			if len(g.efos) == 0 {
				w = 0
			}
		case "ingestexcise", "excise":
			if g.fmv() < pebble.FormatVirtualSSTables {
				w = 0
			}
		}
		ws = append(ws, wchoice{k, w})
	}
	kind := pick(g.t, label+"kind", ws)
	s := Step{K: kind}
	switch kind {
	case "write":
		o := g.writeOp(label, false)
		s.Ops = []Op{o}
		s.Sync = g.drawSync(label)
		g.commitOps(s.Ops)
	case "batch", "bigbatch":
		s.K = "write"
		n := rapid.IntRange(2, 8).Draw(g.t, label+"n")
		for i := 0; i < n; i++ {
			o := g.writeOp(fmt.Sprintf("%sb%d", label, i), false)
			s.Ops = append(s.Ops, o)
			g.sdNote(o) // so that a later sdel in the same batch respects the contract
		}
		if kind == "bigbatch" {
			// one value large enough to push the batch over the large-batch threshold
			g.nval++
			s.Ops = append(s.Ops, Op{K: "set", A: g.key(label + "bigk"), V: fmt.Sprintf("v%d", g.nval),
				VLen: g.opt.MemTableSize/2 + rapid.IntRange(0, 2000).Draw(g.t, label+"bigl")})
			g.sdNote(s.Ops[len(s.Ops)-1])
		}
		s.Sync = g.drawSync(label)
		s.NoSyncWait = rapid.IntRange(0, 5).Draw(g.t, label+"nsw") == 0
		g.st = g.st.Apply(s.Ops)
		g.memDirty = true
	case "flush", "wait", "restart":
		if kind == "restart" {
			g.snaps, g.iters, g.ibs, g.efos = nil, nil, nil, nil
		}
		if kind != "wait" {
			g.unsyncd = false
		}
		if kind == "flush" {
			g.memDirty = false
		}
	case "compact":
		s.A, s.B = g.span(label + "sp")
		if rapid.Bool().Draw(g.t, label+"whole") {
			s.A, s.B = Prefixes[0], "z"
		}
		s.Flag = rapid.Bool().Draw(g.t, label+"par")
	case "ingest", "ingestexcise":
		s.Tables = g.tables(label)
		if len(s.Tables) == 0 {
			s.K = "wait"
			break
		}
		g.preStructural()
		exA, exB := "", ""
		if kind == "ingestexcise" {
			s.A, s.B = g.span(label + "ex")
			exA, exB = s.A, s.B
			g.sdNote(Op{K: "delrange", A: s.A, B: s.B})
		}
		g.st = g.st.ApplyIngest(s.Tables, exA, exB)
		for _, t := range s.Tables {
			for _, o := range t {
				if o.K == "delrange" {
					g.sdNote(o)
				}
			}
		}
		for _, t := range s.Tables {
			for _, o := range t {
				if o.K != "delrange" {
					g.sdNote(o)
				}
			}
		}
	case "excise":
		g.preStructural()
		s.A, s.B = g.span(label + "ex")
		n := g.st.clone()
		n.exciseSpan(s.A, s.B)
		g.st = n
		g.sdNote(Op{K: "delrange", A: s.A, B: s.B})
	case "snap":
		s.ID = g.newID()
		g.snaps = append(g.snaps, s.ID)
	case "snapclose":
		s.ID = rapid.SampledFrom(g.snaps).Draw(g.t, label+"id")
		g.snaps = remove(g.snaps, s.ID)
	case "get":
		s.On, s.ID2 = g.readerChoice(label)
		s.A = g.key(label + "k")
	case "snapread":
		s.K = rapid.SampledFrom([]string{"get", "scan"}).Draw(g.t, label+"rk")
		s.On, s.ID2 = "snap", rapid.SampledFrom(g.snaps).Draw(g.t, label+"id")
		if s.K == "get" {
			s.A = g.key(label + "k")
		} else {
			o := g.iterOpts(label + "o")
			s.IO = &o
			s.Flag = rapid.Bool().Draw(g.t, label+"rev")
		}
	case "scan":
		s.On, s.ID2 = g.readerChoice(label)
		o := g.iterOpts(label + "o")
		s.IO = &o
		s.Flag = rapid.Bool().Draw(g.t, label+"rev")
	case "iternew":
		s.ID = g.newID()
		s.On, s.ID2 = g.readerChoice(label)
		o := g.iterOpts(label + "o")
		s.IO = &o
		s.IOps = g.iterOps(label+"i", rapid.IntRange(0, g.p.IterOpsMax).Draw(g.t, label+"nops"), true)
		g.iters = append(g.iters, s.ID)
		g.iterOn[s.ID] = s.On
	case "iterop":
		s.ID = rapid.SampledFrom(g.iters).Draw(g.t, label+"id")
		s.IOps = g.iterOps(label+"i", rapid.IntRange(1, g.p.IterOpsMax).Draw(g.t, label+"nops"), false)
	case "iterclone":
		s.ID = rapid.SampledFrom(g.iters).Draw(g.t, label+"id")
		s.ID2 = g.newID()
		s.Flag = rapid.Bool().Draw(g.t, label+"refresh")
		if rapid.Bool().Draw(g.t, label+"newopts") {
			o := g.iterOpts(label + "o")
			s.IO = &o
		}
		s.IOps = g.iterOps(label+"i", rapid.IntRange(1, g.p.IterOpsMax).Draw(g.t, label+"nops"), true)
		g.iters = append(g.iters, s.ID2)
	case "iterclose":
		s.ID = rapid.SampledFrom(g.iters).Draw(g.t, label+"id")
		g.iters = remove(g.iters, s.ID)
	case "ibnew":
		s.ID = g.newID()
		g.ibs = append(g.ibs, s.ID)
	case "ibop":
		s.ID = rapid.SampledFrom(g.ibs).Draw(g.t, label+"id")
		n := rapid.IntRange(1, 4).Draw(g.t, label+"n")
		for i := 0; i < n; i++ {
			s.Ops = append(s.Ops, g.writeOp(fmt.Sprintf("%sb%d", label, i), true))
		}
		g.ibOps[s.ID] = append(g.ibOps[s.ID], s.Ops...)
	case "ibread":
		s.K = rapid.SampledFrom([]string{"get", "scan"}).Draw(g.t, label+"rk")
		s.On, s.ID2 = "batch", rapid.SampledFrom(g.ibs).Draw(g.t, label+"id")
		if s.K == "get" {
			s.A = g.key(label + "k")
		} else {
			o := g.iterOpts(label + "o")
			s.IO = &o
			s.Flag = rapid.Bool().Draw(g.t, label+"rev")
		}
	case "ibcommit":
		s.ID = rapid.SampledFrom(g.ibs).Draw(g.t, label+"id")
		s.Sync = g.drawSync(label)
		g.ibs = remove(g.ibs, s.ID)
		g.commitOps(g.ibOps[s.ID])
		delete(g.ibOps, s.ID)
	case "ibclose":
		s.ID = rapid.SampledFrom(g.ibs).Draw(g.t, label+"id")
		g.ibs = remove(g.ibs, s.ID)
		delete(g.ibOps, s.ID)
	case "efos":
		s.ID = g.newID()
		// 1-2 disjoint protected ranges
		a, b := g.span(label + "r1")
		s.Spans = [][2]string{{a, b}}
		if rapid.Bool().Draw(g.t, label+"two") {
			ib := prefixIndex(b)
			if ib+2 < len(Prefixes) {
				c := rapid.IntRange(ib+1, len(Prefixes)-2).Draw(g.t, label+"r2a")
				d := rapid.IntRange(c+1, len(Prefixes)-1).Draw(g.t, label+"r2b")
				s.Spans = append(s.Spans, [2]string{Prefixes[c], Prefixes[d]})
			}
		}
		g.efos = append(g.efos, s.ID)
		g.efosRg[s.ID] = s.Spans
	case "efosread":
		id := rapid.SampledFrom(g.efos).Draw(g.t, label+"id")
		rg := rapid.SampledFrom(g.efosRg[id]).Draw(g.t, label+"rg")
		s.K = rapid.SampledFrom([]string{"get", "scan", "scan"}).Draw(g.t, label+"rk")
		s.On, s.ID2 = "efos", id
		if s.K == "get" {
			// a key inside the range
			ia, ib := prefixIndex(rg[0]), prefixIndex(rg[1])
			s.A = mkKey(Prefixes[rapid.IntRange(ia, ib-1).Draw(g.t, label+"p")], rapid.IntRange(0, MaxSuffix).Draw(g.t, label+"s"))
		} else {
			o := g.iterOpts(label + "o")
			o.Lower, o.Upper = rg[0], rg[1]
			s.IO = &o
			s.Flag = rapid.Bool().Draw(g.t, label+"rev")
		}
	case "efoswait", "efosclose":
		s.ID = rapid.SampledFrom(g.efos).Draw(g.t, label+"id")
		if kind == "efosclose" {
			g.efos = remove(g.efos, s.ID)
		}
	default:
		if f := extraGen[kind]; f != nil {
			if !f(g, label, &s) {
				return
			}
		} else {
			return
		}
	}
	g.steps = append(g.steps, s)
}

// extraGen lets other files register generators for additional step kinds.
var extraGen = map[string]func(g *gen, label string, s *Step) bool{}
