package dbm

import (
	"fmt"

	"github.com/cockroachdb/pebble"
	"pgregory.net/rapid"
)

// Profile weights the plan generator for one property.
type Profile struct {
	Name     string
	MinSteps int
	MaxSteps int
	// W: step kind -> weight. Kinds: write, batch, bigbatch, flush, compact, wait,
	// restart, ingest, ingestexcise, excise, snap, snapclose, get, scan, iternew,
	// iterop, iterclone, iterclose, ibnew, ibop, ibcommit, ibclose, ibread, efos,
	// efoswait, efosclose, snapread, efosread
	W map[string]int
	// OpW: write op kind -> weight (set del delsized sdel delrange merge logdata rkset rkunset rkdel)
	OpW map[string]int
	// IterOpsMax is the maximum number of iterator ops per iternew/iterop step.
	IterOpsMax int
	// Opt tweaks the drawn options.
	Opt func(t *rapid.T, o *OptPlan)
	// Alt / AltPct: in AltPct percent of the cases the plan is drawn from one of
	// the alternative profiles instead (the check's oracle and non-triviality
	// rule stay the same): a check whose property every history must satisfy
	// also explores the history shapes other checks were built around.
	Alt    []Profile
	AltPct int
	// BlobIngestPct: percentage of ingestions whose tables are reduced to point
	// sets and written with separated values (external blob files).
	BlobIngestPct int
	// WALRelocate lets restarts move the WAL directory (the old one is listed
	// in WALRecoveryDirs from then on).
	WALRelocate bool
	// NoRangeKeys disables range keys and combined iteration entirely.
	NoRangeKeys bool
	// Masking enables range-key masking options on iterators.
	Masking bool
	// MaxSnaps etc.
	MaxSnaps, MaxIters, MaxBatches, MaxEFOS int
	// CrashGen, if set, draws the crash plan of the case.
	CrashGen func(t *rapid.T, o OptPlan) *CrashPlan
	// DurableIngest makes the generator flush before an ingest/excise whenever
	// earlier commits are not yet durable (an ingestion becomes durable through
	// the MANIFEST while earlier unsynced WAL writes may be lost, so the
	// recovered state would not be a prefix of the history; see DESIGN.md §3.5).
	DurableIngest bool
	// SyncPct is the percentage of commits issued with Sync (default 25).
	SyncPct int
	// BigValues shifts the value-length distribution upwards (more flushes,
	// more files, deeper LSMs).
	BigValues bool
	// FlushBeforeIngest makes the generator flush before an ingest/excise
	// whenever anything was written since the last flush (the memtable may be
	// non-empty), whether or not those writes were synced. Used to exclude the
	// known finding C13/orgd-ingest-visible-without-earlier-unflushed-writes.
	FlushBeforeIngest bool
	// NoMergeSdel removes Merge and SingleDelete from the histories (ingested
	// tables included). ScanInternal documents, in scan_internal.go, that its
	// point-collapsing iterator must not be used on keyspaces that hold MERGE or
	// SINGLEDEL keys (it panics by design); every caller respects this.
	NoMergeSdel bool
	// NoMotif disables the canned multi-step motifs (see gen.motif).
	NoMotif bool
	// BigRecordPct is the percentage of values of 20-90 KB (WAL records spanning
	// several 32 KiB blocks).
	BigRecordPct int
	// SchedPct is the percentage of plans that run with FS-level schedule
	// perturbation (see schedfs.go); 0 = default (25), negative = never.
	SchedPct int
}

type wchoice struct {
	k string
	w int
}

func pick(t *rapid.T, label string, ws []wchoice) string {
	total := 0
	for _, c := range ws {
		total += c.w
	}
	if total == 0 {
		return ""
	}
	n := rapid.IntRange(0, total-1).Draw(t, label)
	for _, c := range ws {
		if n < c.w {
			return c.k
		}
		n -= c.w
	}
	return ws[len(ws)-1].k
}

// fixed order so that weights map to the same draws regardless of map order.
var stepOrder = []string{"write", "get", "scan", "batch", "flush", "iternew", "iterop", "iterclose", "compact", "wait", "crashrestart", "orgd",
	"snap", "snapread", "snapclose", "bigbatch", "ingest", "restart", "ingestexcise", "excise", "iterclone",
	"ibnew", "ibop", "ibread", "ibcommit", "ibclose", "efos", "efosread", "efoswait", "efosclose",
	"checkpoint", "ratchet", "scaninternal", "maint", "motif"}

var opOrder = []string{"set", "del", "merge", "delrange", "sdel", "delsized", "rkset", "rkunset", "rkdel", "logdata"}

type gen struct {
	t    *rapid.T
	p    Profile
	opt  OptPlan
	st   *State
	sd   map[string]*sdState
	nval int
	nid  int

	snaps   []int
	iters   []int
	ibs     []int
	efos    []int
	efosRg  map[int][][2]string
	iterOn  map[int]string
	iterEf  map[int]int
	ibOps   map[int][]Op
	steps   []Step
	unsyncd bool
	// wantHold: a motif needs SchedPlan.HoldManifest
	wantHold bool
	// memDirty: something was committed since the last flush.
	memDirty bool
	fmvNow   int
}

// preStructural inserts the flush that the profile demands before an
// ingest/excise (see Profile.DurableIngest, Profile.FlushBeforeIngest).
func (g *gen) preStructural() {
	if (g.p.DurableIngest && g.unsyncd) || (g.p.FlushBeforeIngest && g.memDirty) {
		g.steps = append(g.steps, Step{K: "flush", Flag: true})
		g.unsyncd = false
		g.memDirty = false
	}
}

func drawInt(g *gen, label string, lo, hi int) int { return rapid.IntRange(lo, hi).Draw(g.t, label) }

func rapidSurv(g *gen, label string) int {
	return rapid.SampledFrom([]int{0, 1, 2, 3, 5, 7, 11}).Draw(g.t, label+"surv")
}

func (g *gen) fmv() pebble.FormatMajorVersion {
	return pebble.FormatMajorVersion(max(g.opt.FMV, g.fmvNow))
}

func (g *gen) prefix(label string) string {
	// 70% among the first five prefixes to force collisions
	if rapid.IntRange(0, 9).Draw(g.t, label+"hot") < 7 {
		return Prefixes[rapid.IntRange(0, 4).Draw(g.t, label)]
	}
	return Prefixes[rapid.IntRange(0, len(Prefixes)-1).Draw(g.t, label)]
}

func (g *gen) key(label string) string {
	return mkKey(g.prefix(label), rapid.IntRange(0, MaxSuffix).Draw(g.t, label+"sfx"))
}

// span draws a non-empty span of bare prefixes.
func (g *gen) span(label string) (string, string) {
	i := rapid.IntRange(0, len(Prefixes)-2).Draw(g.t, label+"a")
	w := rapid.IntRange(1, 4).Draw(g.t, label+"w")
	j := min(i+w, len(Prefixes)-1)
	return Prefixes[i], Prefixes[j]
}

// raceEFOS sometimes makes an excising step create an EFOS while the excise is
// in flight (see efosrace.go); only in profiles that use EFOS at all.
func (g *gen) raceEFOS(label string, s *Step) {
	if g.p.W["efos"] == 0 || len(g.efos) >= g.p.MaxEFOS || rapid.IntRange(0, 9).Draw(g.t, label+"race") >= 4 {
		return
	}
	s.ID2 = g.newID()
	// the first protected range usually overlaps the excise span
	a, b := s.A, s.B
	switch rapid.IntRange(0, 3).Draw(g.t, label+"racesp") {
	case 0:
		a, b = g.span(label + "racer")
	case 1:
		// widen to the left / right by one prefix
		if i := prefixIndex(a); i > 0 {
			a = Prefixes[i-1]
		}
	}
	s.Spans = [][2]string{{a, b}}
	if ib := prefixIndex(b); ib+2 < len(Prefixes) && rapid.Bool().Draw(g.t, label+"racetwo") {
		c := rapid.IntRange(ib+1, len(Prefixes)-2).Draw(g.t, label+"racec")
		d := rapid.IntRange(c+1, len(Prefixes)-1).Draw(g.t, label+"raced")
		s.Spans = append(s.Spans, [2]string{Prefixes[c], Prefixes[d]})
	}
	g.efos = append(g.efos, s.ID2)
	g.efosRg[s.ID2] = s.Spans
}

// delSpan draws the bounds of a DeleteRange: mostly bare prefixes, sometimes
// arbitrary (suffixed) user keys — DeleteRange accepts any start < end.
func (g *gen) delSpan(label string) (string, string) {
	if rapid.IntRange(0, 9).Draw(g.t, label+"sfxd") < 7 {
		return g.span(label)
	}
	a, b := g.key(label+"ka"), g.key(label+"kb")
	if rapid.Bool().Draw(g.t, label+"same") {
		// both bounds inside one prefix
		p, _ := splitKey(a)
		b = mkKey(p, rapid.IntRange(0, MaxSuffix).Draw(g.t, label+"sb"))
	}
	switch c := cmpKey(a, b); {
	case c > 0:
		a, b = b, a
	case c == 0:
		return g.span(label)
	}
	return a, b
}

// wideSpan covers most of the keyspace.
func (g *gen) wideSpan(label string) (string, string) {
	i := rapid.IntRange(0, 2).Draw(g.t, label+"a")
	j := rapid.IntRange(len(Prefixes)-3, len(Prefixes)-1).Draw(g.t, label+"b")
	return Prefixes[i], Prefixes[j]
}

// forcedWrite appends a single-op write step of the given kind (falls back to
// "set" when the profile or format version does not allow the kind).
func (g *gen) forcedWrite(label, kind string, wide bool) {
	if g.p.OpW[kind] == 0 || (g.p.NoRangeKeys && (kind == "rkset" || kind == "rkdel")) || (g.p.NoMergeSdel && (kind == "merge" || kind == "sdel")) {
		kind = "set"
	}
	o := Op{K: kind}
	switch kind {
	case "set", "merge":
		o.A = g.key(label + "k")
		o.V, o.VLen = g.value(label + "v")
	case "del":
		o.A = g.key(label + "k")
	case "delrange", "rkdel":
		if wide {
			o.A, o.B = g.wideSpan(label + "sp")
		} else {
			o.A, o.B = g.span(label + "sp")
		}
	case "rkset":
		o.A, o.B = g.span(label + "sp")
		o.S = rapid.IntRange(1, 4).Draw(g.t, label+"rs")
		g.nval++
		o.V = fmt.Sprintf("r%d", g.nval)
	}
	s := Step{K: "write", Ops: []Op{o}}
	s.Sync = g.drawSync(label)
	g.commitOps(s.Ops)
	g.steps = append(g.steps, s)
}

// universeKeys lists every point key of the universe in comparer order.
func universeKeys() []string {
	var u []string
	for _, p := range Prefixes {
		u = append(u, p)
		for sfx := MaxSuffix; sfx >= 1; sfx-- {
			u = append(u, mkKey(p, sfx))
		}
	}
	return u
}

// enabled reports whether the profile generates steps of this kind at all.
func (g *gen) enabled(kind string) bool { return g.p.W[kind] > 0 }

// motif emits a short canned sequence that builds an LSM situation random
// single steps rarely reach (data below L0 covered by a newer tombstone with a
// snapshot in between; several overlapping L0 sublevels over lower levels; ...).
// Every sub-step goes through the normal generators, so all preconditions hold.
func (g *gen) motif(label string) {
	sub := func(i int, kind string) {
		if !g.enabled(kind) && kind != "wait" {
			return
		}
		switch kind {
		case "snap":
			if len(g.snaps) >= g.p.MaxSnaps {
				return
			}
		case "snapread":
			if len(g.snaps) == 0 {
				return
			}
		case "iternew":
			if len(g.iters) >= g.p.MaxIters {
				return
			}
		}
		g.emit(fmt.Sprintf("%sm%d", label, i), kind)
	}
	writes := func(i, n int) {
		for j := 0; j < n; j++ {
			sub(i*10+j, "write")
		}
	}
	nm := 3
	if g.p.MaxBatches > 0 && g.enabled("ibop") && g.enabled("iternew") {
		nm = 5 // the batch-refresh motif, twice as likely
	}
	if g.p.CrashGen != nil && !g.opt.DisableWAL && rapid.IntRange(0, 3).Draw(g.t, label+"walrace") == 0 {
		g.walRaceMotif(label)
		return
	}
	if g.p.MaxSnaps > 0 && g.enabled("snap") && g.enabled("flush") && rapid.IntRange(0, 4).Draw(g.t, label+"shadow") == 0 {
		g.shadowMotif(label)
		return
	}
	m := rapid.IntRange(0, nm+1).Draw(g.t, label+"motif")
	if m == nm+1 {
		if !g.enabled("iternew") || g.p.MaxIters == 0 {
			m = 1
		} else {
			m = 100
		}
	}
	switch m {
	case 100: // a reader pinned across maintenance and quiescence, closed, quiescence again
		writes(1, rapid.IntRange(1, 4).Draw(g.t, label+"n1"))
		sub(2, "flush")
		if len(g.iters) >= g.p.MaxIters && len(g.iters) > 0 {
			id := g.iters[0]
			g.iters = remove(g.iters, id)
			g.steps = append(g.steps, Step{K: "iterclose", ID: id})
		}
		it := Step{K: "iternew", ID: g.newID(), On: "db"}
		io := g.iterOpts(label + "io")
		it.IO = &io
		it.IOps = g.iterOps(label+"i1", rapid.IntRange(0, 3).Draw(g.t, label+"ni"), true)
		g.iters = append(g.iters, it.ID)
		g.iterOn[it.ID] = "db"
		g.steps = append(g.steps, it)
		writes(3, rapid.IntRange(1, 4).Draw(g.t, label+"n2"))
		sub(4, "flush")
		sub(5, "compact")
		sub(6, "wait")
		g.iters = remove(g.iters, it.ID)
		g.steps = append(g.steps, Step{K: "iterclose", ID: it.ID})
		sub(7, "wait")
	case 4, 5: // indexed batch mutated under a positioned (possibly limit-paused) batch iterator, then refreshed
		var bid int
		if len(g.ibs) > 0 {
			bid = rapid.SampledFrom(g.ibs).Draw(g.t, label+"bid")
		} else {
			bid = g.newID()
			g.ibs = append(g.ibs, bid)
			g.steps = append(g.steps, Step{K: "ibnew", ID: bid})
		}
		bop := func(l string) {
			st := Step{K: "ibop", ID: bid}
			for i, n := 0, rapid.IntRange(1, 3).Draw(g.t, l+"n"); i < n; i++ {
				st.Ops = append(st.Ops, g.writeOp(fmt.Sprintf("%sb%d", l, i), true))
			}
			g.ibOps[bid] = append(g.ibOps[bid], st.Ops...)
			g.steps = append(g.steps, st)
		}
		bop(label + "b1")
		if len(g.iters) >= g.p.MaxIters && len(g.iters) > 0 {
			id := g.iters[0]
			g.iters = remove(g.iters, id)
			g.steps = append(g.steps, Step{K: "iterclose", ID: id})
		}
		it := Step{K: "iternew", ID: g.newID(), On: "batch", ID2: bid}
		io := g.iterOpts(label + "io")
		if rapid.Bool().Draw(g.t, label+"plain") {
			io = IterOpts{KT: KTPoints}
			if g.p.NoRangeKeys {
				io.KT = 0
			}
		}
		it.IO = &io
		it.IOps = g.iterOps(label+"i1", rapid.IntRange(1, 4).Draw(g.t, label+"n1"), true)
		// end on a limited op so that the iterator is (often) paused at a limit
		lim := IterOp{Op: rapid.SampledFrom([]string{"seekgel", "seekgel", "seekltl", "nextl", "prevl"}).Draw(g.t, label+"lop"), Limit: g.seekKey(label + "lim")}
		if lim.Op == "seekgel" || lim.Op == "seekltl" {
			lim.Key = g.seekKey(label + "lk")
		}
		absKey := g.seekKey(label + "ak")
		// Model-guided variant: use the generation-time model of the batch view to
		// pick a seek key k, a limit and a parked key P with no visible point in
		// [k, P), so that the limited seek really pauses; then a key M in [k, limit)
		// is written to the batch and the iterator is re-sought at or before M
		// after the refresh.
		var guided *Op
		if rapid.Bool().Draw(g.t, label+"guided") {
			view := g.st.Apply(g.ibOps[bid])
			uni := universeKeys()
			var cand [][3]int // (index of k, index of limit, index of P) in uni
			for pi, pk := range uni {
				if _, ok := view.Points[pk]; !ok {
					continue
				}
				// walk down from P while keys are invisible
				for ki := pi - 1; ki >= 0; ki-- {
					if _, vis := view.Points[uni[ki]]; vis {
						break
					}
					for li := ki + 1; li <= pi; li++ {
						cand = append(cand, [3]int{ki, li, pi})
					}
				}
			}
			if len(cand) > 0 {
				c := cand[rapid.IntRange(0, len(cand)-1).Draw(g.t, label+"cand")]
				lim = IterOp{Op: "seekgel", Key: uni[c[0]], Limit: uni[c[1]]}
				m := uni[rapid.IntRange(c[0], c[1]-1).Draw(g.t, label+"m")]
				g.nval++
				guided = &Op{K: "set", A: m, V: fmt.Sprintf("v%d", g.nval)}
				absKey = uni[rapid.IntRange(c[0], c[2]).Draw(g.t, label+"ak2")]
			}
		}
		it.IOps = append(it.IOps, lim)
		g.iters = append(g.iters, it.ID)
		g.iterOn[it.ID] = "batch"
		g.steps = append(g.steps, it)
		if guided != nil {
			st := Step{K: "ibop", ID: bid, Ops: []Op{*guided}}
			g.ibOps[bid] = append(g.ibOps[bid], st.Ops...)
			g.steps = append(g.steps, st)
		} else {
			bop(label + "b2")
		}
		op := Step{K: "iterop", ID: it.ID}
		no := io
		if rapid.IntRange(0, 2).Draw(g.t, label+"newo") == 0 {
			no = g.iterOpts(label + "io2")
		}
		op.IOps = append(op.IOps, IterOp{Op: "setopts", Opts: &no},
			IterOp{Op: rapid.SampledFrom([]string{"seekge", "seekge", "seekge", "first", "seeklt", "last", "seekprefixge"}).Draw(g.t, label+"abs"), Key: absKey})
		op.IOps = append(op.IOps, g.iterOps(label+"i2", rapid.IntRange(0, 4).Draw(g.t, label+"n2"), false)...)
		g.steps = append(g.steps, op)
	case 0: // data pushed down, then a covering range deletion (delete-only compaction candidates)
		writes(1, rapid.IntRange(1, 4).Draw(g.t, label+"n1"))
		sub(2, "flush")
		sub(3, "compact")
		if rapid.Bool().Draw(g.t, label+"sn") {
			sub(4, "snap")
		}
		if g.p.OpW["delrange"] > 0 {
			g.forcedWrite(label+"dr", "delrange", true)
		}
		sub(5, "flush")
		sub(6, "wait")
		sub(7, "snapread")
	case 1: // several overlapping L0 sublevels over a lower level
		for r := 0; r < rapid.IntRange(2, 4).Draw(g.t, label+"rounds"); r++ {
			writes(10+r, rapid.IntRange(1, 3).Draw(g.t, fmt.Sprintf("%sn%d", label, r)))
			sub(20+r, "flush")
			if r == 0 && rapid.Bool().Draw(g.t, label+"c") {
				sub(30, "compact")
			}
		}
		sub(40, "iternew")
	case 2: // point tombstone over older data in a lower level, snapshot in between
		writes(1, 2)
		sub(2, "flush")
		sub(3, "compact")
		sub(4, "snap")
		if g.p.OpW["del"] > 0 {
			g.forcedWrite(label+"d1", "del", false)
			g.forcedWrite(label+"d2", "del", false)
		}
		sub(5, "flush")
		sub(6, "compact")
		sub(7, "wait")
		sub(8, "snapread")
	default: // ingest under/over existing data then flush
		writes(1, 2)
		sub(2, "ingest")
		writes(3, 2)
		sub(4, "flush")
		sub(5, "ingest")
		sub(6, "wait")
	}
}

func (g *gen) value(label string) (string, int) {
	g.nval++
	tag := fmt.Sprintf("v%d", g.nval)
	if g.p.BigRecordPct > 0 && rapid.IntRange(0, 99).Draw(g.t, label+"huge") < g.p.BigRecordPct {
		// a WAL record that spans several 32 KiB blocks
		return tag, rapid.IntRange(20000, 90000).Draw(g.t, label+"lh")
	}
	cls := rapid.IntRange(0, 19).Draw(g.t, label+"len")
	if g.p.BigValues && cls < 8 {
		cls += 10
	}
	vl := 0
	switch {
	case cls < 10:
		vl = 0
	case cls < 13:
		vl = rapid.IntRange(1, 12).Draw(g.t, label+"l1")
	case cls < 16:
		vl = rapid.IntRange(13, 80).Draw(g.t, label+"l2")
	case cls < 18:
		vl = rapid.IntRange(81, 700).Draw(g.t, label+"l3")
	case cls < 19:
		vl = rapid.IntRange(701, 5000).Draw(g.t, label+"l4")
	default:
		vl = 0
	}
	return tag, vl
}

func (g *gen) sdOK(k string) bool {
	s := g.sd[k]
	return s == nil || (s.sets <= 1 && !s.merged)
}

func (g *gen) sdNote(o Op) {
	get := func(k string) *sdState {
		s := g.sd[k]
		if s == nil {
			s = &sdState{}
			g.sd[k] = s
		}
		return s
	}
	switch o.K {
	case "set":
		get(o.A).sets++
	case "merge":
		get(o.A).merged = true
	case "del", "delsized", "sdel":
		delete(g.sd, o.A)
	case "delrange":
		for k := range g.sd {
			if inSpan(k, o.A, o.B) {
				delete(g.sd, k)
			}
		}
	}
}

// writeOp draws one write op. inBatchLongLived forbids sdel.
func (g *gen) writeOp(label string, longLived bool) Op {
	var ws []wchoice
	for _, k := range opOrder {
		w := g.p.OpW[k]
		if g.p.NoRangeKeys && (k == "rkset" || k == "rkunset" || k == "rkdel") {
			w = 0
		}
		if k == "delsized" && g.fmv() < pebble.FormatDeleteSizedAndObsolete {
			w = 0
		}
		if k == "sdel" && longLived {
			w = 0
		}
		if g.p.NoMergeSdel && (k == "sdel" || k == "merge") {
			w = 0
		}
		ws = append(ws, wchoice{k, w})
	}
	k := pick(g.t, label+"kind", ws)
	o := Op{K: k}
	switch k {
	case "set", "merge":
		o.A = g.key(label + "k")
		o.V, o.VLen = g.value(label + "v")
	case "del":
		o.A = g.key(label + "k")
	case "delsized":
		o.A = g.key(label + "k")
		o.N = rapid.IntRange(0, 100).Draw(g.t, label+"n")
	case "sdel":
		o.A = g.key(label + "k")
		if !g.sdOK(o.A) {
			o.K = "del"
		}
	case "rkdel":
		o.A, o.B = g.span(label + "sp")
	case "delrange":
		o.A, o.B = g.delSpan(label + "sp")
	case "rkset":
		o.A, o.B = g.span(label + "sp")
		o.S = rapid.IntRange(1, 4).Draw(g.t, label+"rs")
		g.nval++
		o.V = fmt.Sprintf("r%d", g.nval)
	case "rkunset":
		o.A, o.B = g.span(label + "sp")
		o.S = rapid.IntRange(1, 4).Draw(g.t, label+"rs")
	case "logdata":
		g.nval++
		o.V = fmt.Sprintf("l%d", g.nval)
	}
	return o
}

// shadowMotif: keys and the tombstone that shadows every version of their
// prefix reach the SAME sstable with a snapshot in between (set ... snapshot
// ... delete / delete-range ... flush), optionally pushed to the bottom level;
// then the snapshot reads exactly those keys with Get and prefix seeks. The
// writer marks such points obsolete inside the table; filters, obsolete-point
// hiding and elision must all still serve the snapshot.
func (g *gen) shadowMotif(label string) {
	if len(g.snaps) >= g.p.MaxSnaps && len(g.snaps) > 0 {
		id := g.snaps[0]
		g.snaps = remove(g.snaps, id)
		g.steps = append(g.steps, Step{K: "snapclose", ID: id})
	}
	pi := rapid.IntRange(0, len(Prefixes)-2).Draw(g.t, label+"shp")
	pre := Prefixes[pi]
	if rapid.Bool().Draw(g.t, label+"shlow") {
		// older versions of the prefix in a lower level first
		g.nval++
		o := Op{K: "set", A: mkKey(pre, rapid.IntRange(0, MaxSuffix).Draw(g.t, label+"shs0")), V: fmt.Sprintf("v%d", g.nval)}
		g.steps = append(g.steps, Step{K: "write", Ops: []Op{o}, Sync: true}, Step{K: "flush"})
		g.commitOps([]Op{o})
		g.memDirty, g.unsyncd = false, false
		if g.enabled("compact") && rapid.Bool().Draw(g.t, label+"shc0") {
			g.steps = append(g.steps, Step{K: "compact", A: Prefixes[0], B: "z"})
		}
	}
	var keys []string
	for i, n := 0, rapid.IntRange(1, 3).Draw(g.t, label+"shn"); i < n; i++ {
		g.nval++
		o := Op{K: "set", A: mkKey(pre, rapid.IntRange(0, MaxSuffix).Draw(g.t, fmt.Sprintf("%sshs%d", label, i))), V: fmt.Sprintf("v%d", g.nval)}
		keys = append(keys, o.A)
		g.steps = append(g.steps, Step{K: "write", Ops: []Op{o}, Sync: true})
		g.commitOps([]Op{o})
	}
	sid := g.newID()
	g.snaps = append(g.snaps, sid)
	g.steps = append(g.steps, Step{K: "snap", ID: sid})
	var tomb []Op
	if g.p.OpW["delrange"] > 0 && rapid.Bool().Draw(g.t, label+"shdr") {
		tomb = []Op{{K: "delrange", A: pre, B: Prefixes[pi+1]}}
	} else {
		seen := map[string]bool{}
		for _, k := range keys {
			if !seen[k] {
				seen[k] = true
				tomb = append(tomb, Op{K: "del", A: k})
			}
		}
	}
	g.steps = append(g.steps, Step{K: "write", Ops: tomb, Sync: true})
	g.commitOps(tomb)
	g.steps = append(g.steps, Step{K: "flush"})
	g.memDirty, g.unsyncd = false, false
	if g.enabled("compact") && rapid.Bool().Draw(g.t, label+"shc1") {
		g.steps = append(g.steps, Step{K: "compact", A: Prefixes[0], B: "z"})
	}
	for _, k := range keys {
		g.steps = append(g.steps, Step{K: "get", On: "snap", ID2: sid, A: k})
	}
	io := IterOpts{}
	g.steps = append(g.steps, Step{K: "scan", On: "snap", ID2: sid, IO: &io, Flag: rapid.Bool().Draw(g.t, label+"shrev")})
	if g.enabled("iternew") && len(g.iters) < g.p.MaxIters {
		it := Step{K: "iternew", ID: g.newID(), On: "snap", ID2: sid, IO: &IterOpts{}}
		for _, k := range keys {
			it.IOps = append(it.IOps, IterOp{Op: "seekprefixge", Key: k}, IterOp{Op: "next"})
		}
		g.iters = append(g.iters, it.ID)
		g.iterOn[it.ID] = "snap"
		g.steps = append(g.steps, it)
	}
}

// walRaceMotif: acknowledged synced commits sit in a WAL whose memtable is being
// flushed in the background while the flush's MANIFEST sync is held back
// (SchedPlan.HoldManifest); meanwhile the foreground closes a reader that
// pinned since-compacted tables (an obsolete-file pass on the foreground) and
// keeps committing until the WAL rotates again (WAL recycling / deletion).
// Crash images taken on the way lack the unsynced MANIFEST edit, so the WAL
// must still be there.
func (g *gen) walRaceMotif(label string) {
	g.wantHold = true
	// room for a second memtable rotation while the first flush is still held
	g.opt.MemStop = max(g.opt.MemStop, 4)
	set := func(tag string, vlen int) {
		g.nval++
		o := Op{K: "set", A: g.key(label + tag), V: fmt.Sprintf("v%d", g.nval), VLen: vlen}
		g.steps = append(g.steps, Step{K: "write", Ops: []Op{o}, Sync: true})
		g.commitOps([]Op{o})
	}
	id := g.newID()
	io := IterOpts{}
	set("w0", 0)
	g.steps = append(g.steps, Step{K: "flush"})
	g.memDirty, g.unsyncd = false, false
	g.steps = append(g.steps, Step{K: "iternew", ID: id, On: "db", IO: &io, IOps: []IterOp{{Op: "first"}}})
	set("w1", 0)
	g.steps = append(g.steps, Step{K: "flush"}, Step{K: "compact", A: Prefixes[0], B: "z"}, Step{K: "wait"})
	g.memDirty = false
	for i, n := 0, rapid.IntRange(1, 3).Draw(g.t, label+"nsmall"); i < n; i++ {
		set(fmt.Sprintf("s%d", i), rapid.IntRange(0, 60).Draw(g.t, fmt.Sprintf("%ssl%d", label, i)))
	}
	big := g.opt.MemTableSize * 2 / 5
	for i := 0; i < 3; i++ {
		set(fmt.Sprintf("b%d", i), big)
	}
	g.steps = append(g.steps, Step{K: "waithold"}, Step{K: "iterclose", ID: id})
	for i := 3; i < 6; i++ {
		set(fmt.Sprintf("b%d", i), big)
	}
	if rapid.Bool().Draw(g.t, label+"tailwait") {
		g.steps = append(g.steps, Step{K: "wait"})
	}
}

// rkPile draws many range-key writes over one span with few distinct suffixes:
// a fragment then carries more keys than the small-input fast paths of the
// coalescing code (e.g. insertion sort up to 12 elements) cover, and "newest
// per suffix wins" must still hold. Nil when the profile has no range keys.
func (g *gen) rkPile(label string) []Op {
	if g.p.NoRangeKeys || g.p.OpW["rkset"] == 0 || rapid.IntRange(0, 19).Draw(g.t, label+"pile") != 0 {
		return nil
	}
	a, b := g.span(label + "pilesp")
	nsfx := rapid.IntRange(2, 3).Draw(g.t, label+"pilens")
	var ops []Op
	for i, n := 0, rapid.IntRange(13, 22).Draw(g.t, label+"pilen"); i < n; i++ {
		o := Op{K: "rkset", A: a, B: b, S: 1 + rapid.IntRange(0, nsfx-1).Draw(g.t, fmt.Sprintf("%spiles%d", label, i))}
		if g.p.OpW["rkunset"] > 0 && rapid.IntRange(0, 4).Draw(g.t, fmt.Sprintf("%spileu%d", label, i)) == 0 {
			o.K = "rkunset"
		} else {
			g.nval++
			o.V = fmt.Sprintf("r%d", g.nval)
		}
		ops = append(ops, o)
	}
	return ops
}

func (g *gen) commitOps(ops []Op) {
	g.memDirty = true
	for _, o := range ops {
		g.sdNote(o)
	}
	g.st = g.st.Apply(ops)
}

func (g *gen) iterOpts(label string) IterOpts {
	o := IterOpts{}
	if !g.p.NoRangeKeys {
		o.KT = rapid.SampledFrom([]int{KTBoth, KTPoints, KTBoth, KTRanges}).Draw(g.t, label+"kt")
	}
	bk := func(l string) string {
		// mostly bare prefixes, sometimes suffixed keys
		if rapid.IntRange(0, 4).Draw(g.t, l+"sfxd") == 0 {
			return g.key(l)
		}
		return g.prefix(l)
	}
	switch rapid.IntRange(0, 5).Draw(g.t, label+"bounds") {
	case 0, 1:
	case 2:
		o.Lower = bk(label + "lo")
	case 3:
		o.Upper = bk(label + "hi")
	default:
		a, b := bk(label+"lo"), bk(label+"hi")
		if c := cmpKey(a, b); c > 0 {
			a, b = b, a
		} else if c == 0 {
			b = ""
		}
		o.Lower, o.Upper = a, b
	}
	if g.p.Masking && o.KT == KTBoth {
		if rapid.IntRange(0, 3).Draw(g.t, label+"maskon") > 0 {
			// a mask suffix with a large number admits more range keys as masks
			// (hidden iff mask >= rangekey > point, in suffix numbers)
			o.Mask = rapid.SampledFrom([]int{6, 6, 5, 5, 4, 4, 3, 2, 1}).Draw(g.t, label+"mask")
			o.MaskF = rapid.Bool().Draw(g.t, label+"maskf")
		}
	}
	return o
}

var iterOpOrder = []string{"next", "seekge", "prev", "first", "last", "seeklt", "seekprefixge", "nextprefix",
	"nextl", "prevl", "seekgel", "seekltl", "setbounds", "setopts"}
var iterOpW = map[string]int{"next": 30, "prev": 22, "seekge": 12, "seeklt": 8, "first": 4, "last": 4, "seekprefixge": 8,
	"nextprefix": 6, "nextl": 5, "prevl": 5, "seekgel": 3, "seekltl": 3, "setbounds": 3, "setopts": 2}

func (g *gen) iterOps(label string, n int, first bool) []IterOp {
	var ops []IterOp
	for i := 0; i < n; i++ {
		l := fmt.Sprintf("%s%d", label, i)
		var ws []wchoice
		for _, k := range iterOpOrder {
			w := iterOpW[k]
			if first && i == 0 {
				// start with an absolute op
				switch k {
				case "next", "prev", "nextprefix", "nextl", "prevl", "setbounds", "setopts":
					w = 0
				}
			}
			ws = append(ws, wchoice{k, w})
		}
		op := IterOp{Op: pick(g.t, l+"op", ws)}
		switch op.Op {
		case "seekge", "seeklt", "seekprefixge":
			op.Key = g.seekKey(l + "k")
		case "seekgel", "seekltl":
			op.Key = g.seekKey(l + "k")
			op.Limit = g.seekKey(l + "lim")
		case "nextl", "prevl":
			op.Limit = g.seekKey(l + "lim")
		case "setbounds", "setopts":
			o := g.iterOpts(l + "o")
			op.Opts = &o
		}
		ops = append(ops, op)
		if op.Op == "setbounds" || op.Op == "setopts" {
			// must be followed by an absolute op
			k := g.seekKey(l + "abs")
			ops = append(ops, IterOp{Op: rapid.SampledFrom([]string{"seekge", "first", "last", "seeklt", "seekprefixge"}).Draw(g.t, l+"absop"), Key: k})
		}
	}
	return ops
}

// seekKey draws a key from the universe or an immediate neighbour.
func (g *gen) seekKey(label string) string {
	k := g.key(label)
	switch rapid.IntRange(0, 11).Draw(g.t, label+"nb") {
	case 0:
		p, _ := splitKey(k)
		return p + "\x00" // immediate successor of the prefix
	case 1:
		return mkKey(g.prefix(label+"p2"), MaxSuffix+3) // suffix that sorts before all written ones
	}
	return k
}

func (g *gen) newID() int { g.nid++; return g.nid }

// drawSync draws the Sync flag of a commit and tracks whether undurable
// commits exist.
func (g *gen) drawSync(label string) bool {
	pct := g.p.SyncPct
	if pct == 0 {
		pct = 25
	}
	sync := rapid.IntRange(0, 99).Draw(g.t, label+"sync") < pct
	if !sync || g.opt.DisableWAL {
		g.unsyncd = true
	} else {
		g.unsyncd = false
	}
	return sync
}

func remove(l []int, id int) []int {
	out := l[:0:0]
	for _, x := range l {
		if x != id {
			out = append(out, x)
		}
	}
	return out
}

func (g *gen) table(label string, loIdx, hiIdx int) []Op {
	// keys with prefixes in Prefixes[loIdx:hiIdx] (hiIdx exclusive, >= loIdx+1)
	var ops []Op
	used := map[string]bool{}
	n := rapid.IntRange(1, 5).Draw(g.t, label+"n")
	for i := 0; i < n; i++ {
		l := fmt.Sprintf("%s%d", label, i)
		kind := pick(g.t, l+"kind", []wchoice{{"set", 10}, {"del", 3}, {"merge", ifz(g.p.NoMergeSdel, 0, 2)}, {"delrange", 2},
			{"rkset", ifz(g.p.NoRangeKeys, 0, 2)}, {"rkunset", ifz(g.p.NoRangeKeys, 0, 1)}, {"rkdel", ifz(g.p.NoRangeKeys, 0, 1)}})
		switch kind {
		case "set", "del", "merge":
			k := mkKey(Prefixes[rapid.IntRange(loIdx, hiIdx-1).Draw(g.t, l+"p")], rapid.IntRange(0, MaxSuffix).Draw(g.t, l+"s"))
			if used[k] {
				continue
			}
			used[k] = true
			o := Op{K: kind, A: k}
			if kind != "del" {
				o.V, o.VLen = g.value(l + "v")
			}
			ops = append(ops, o)
		default:
			shi := hiIdx
			if shi >= len(Prefixes) {
				shi = len(Prefixes) - 1
			}
			if shi <= loIdx {
				continue
			}
			a := rapid.IntRange(loIdx, shi-1).Draw(g.t, l+"a")
			b := rapid.IntRange(a+1, shi).Draw(g.t, l+"b")
			o := Op{K: kind, A: Prefixes[a], B: Prefixes[b]}
			if kind == "delrange" && rapid.IntRange(0, 9).Draw(g.t, l+"sfxd") < 3 {
				// suffixed bounds; every key stays below Prefixes[hiIdx] (the table's window)
				b2 := rapid.IntRange(a, hiIdx-1).Draw(g.t, l+"b2")
				o.A = mkKey(Prefixes[a], rapid.IntRange(0, MaxSuffix).Draw(g.t, l+"sa"))
				o.B = mkKey(Prefixes[b2], rapid.IntRange(0, MaxSuffix).Draw(g.t, l+"sb"))
				if cmpKey(o.A, o.B) >= 0 {
					continue
				}
			}
			if kind == "delrange" {
				// range deletions of one table must not overlap (pre-fragmented input)
				ok := true
				for _, p := range ops {
					if p.K == "delrange" && cmpKey(p.A, o.B) < 0 && cmpKey(o.A, p.B) < 0 {
						ok = false
					}
				}
				if !ok {
					continue
				}
			}
			if kind == "rkset" || kind == "rkunset" {
				o.S = rapid.IntRange(1, 4).Draw(g.t, l+"rs")
				// the same suffix may not be set/unset twice over the same keyspan in one table
				ok := true
				for _, p := range ops {
					if (p.K == "rkset" || p.K == "rkunset") && p.S == o.S && cmpKey(p.A, o.B) < 0 && cmpKey(o.A, p.B) < 0 {
						ok = false
					}
				}
				if !ok {
					continue
				}
				if kind == "rkset" {
					g.nval++
					o.V = fmt.Sprintf("r%d", g.nval)
				}
			}
			ops = append(ops, o)
		}
	}
	return ops
}

func ifz(c bool, a, b int) int {
	if c {
		return a
	}
	return b
}

func (g *gen) tables(label string) [][]Op {
	nt := rapid.IntRange(1, 3).Draw(g.t, label+"nt")
	// split the prefix index range into nt disjoint intervals
	cuts := []int{0}
	for i := 1; i < nt; i++ {
		cuts = append(cuts, rapid.IntRange(cuts[len(cuts)-1]+1, len(Prefixes)-(nt-i)).Draw(g.t, fmt.Sprintf("%scut%d", label, i)))
	}
	cuts = append(cuts, len(Prefixes))
	// optionally narrow the whole ingest to a window to avoid always spanning everything
	var out [][]Op
	for i := 0; i < nt; i++ {
		lo, hi := cuts[i], cuts[i+1]
		if hi-lo > 2 && rapid.Bool().Draw(g.t, fmt.Sprintf("%snarrow%d", label, i)) {
			lo = rapid.IntRange(lo, hi-2).Draw(g.t, fmt.Sprintf("%snlo%d", label, i))
			hi = rapid.IntRange(lo+1, hi).Draw(g.t, fmt.Sprintf("%snhi%d", label, i))
		}
		t := g.table(fmt.Sprintf("%st%d", label, i), lo, hi)
		if len(t) > 0 {
			out = append(out, t)
		}
	}
	return out
}

// GenOptions draws a DB configuration.
func GenOptions(t *rapid.T, p Profile) OptPlan {
	fmvs := []int{int(pebble.FormatMinSupported), int(pebble.FormatDeleteSizedAndObsolete), int(pebble.FormatVirtualSSTables),
		int(pebble.FormatFlushableIngestExcises), int(pebble.FormatColumnarBlocks), int(pebble.FormatWALSyncChunks),
		int(pebble.FormatTableFormatV6), int(pebble.FormatValueSeparation), int(pebble.FormatExciseBoundsRecord),
		int(pebble.FormatV2BlobFiles), int(pebble.FormatBackingValueSize), int(pebble.FormatMarkForCompactionInVersionEdit),
		int(pebble.FormatIngestBlobFiles), int(pebble.FormatNewest), int(pebble.FormatNewest), int(pebble.FormatNewest)}
	o := OptPlan{
		FMV:               rapid.SampledFrom(fmvs).Draw(t, "fmv"),
		MemTableSize:      rapid.SampledFrom([]int{4 << 10, 8 << 10, 32 << 10, 256 << 10}).Draw(t, "mem"),
		MemStop:           rapid.IntRange(2, 4).Draw(t, "memstop"),
		L0Compaction:      rapid.IntRange(1, 4).Draw(t, "l0c"),
		L0CompactionFiles: rapid.SampledFrom([]int{1, 2, 4, 500}).Draw(t, "l0f"),
		LBaseMaxBytes:     rapid.SampledFrom([]int64{1 << 10, 8 << 10, 1 << 20}).Draw(t, "lbase"),
		TargetFileSize:    rapid.SampledFrom([]int64{64, 256, 1 << 10, 16 << 10}).Draw(t, "tfs"),
		BlockSize:         rapid.SampledFrom([]int{1, 32, 128, 1024, 4096}).Draw(t, "bs"),
		IndexBlockSize:    rapid.SampledFrom([]int{1, 64, 4096}).Draw(t, "ibs"),
		RestartInterval:   rapid.SampledFrom([]int{1, 2, 16}).Draw(t, "ri"),
		Compression:       rapid.IntRange(0, NumCompression-1).Draw(t, "comp"),
		Filter:            rapid.IntRange(0, NumFilter-1).Draw(t, "filt"),
		MaxManifest:       rapid.SampledFrom([]int64{1, 256, 4096, 128 << 20}).Draw(t, "maxman"),
		ConcurrencyMax:    rapid.IntRange(1, 3).Draw(t, "conc"),
		MultiLevel:        rapid.IntRange(0, 2).Draw(t, "ml"),
		FlushSplitBytes:   rapid.SampledFrom([]int64{0, 1, 1 << 10}).Draw(t, "fsb"),
		BundleSize:        rapid.SampledFrom([]int{16, 1, 4}).Draw(t, "bundle"),
		CacheSize:         rapid.SampledFrom([]int64{1 << 20, 1 << 10, 64 << 10}).Draw(t, "cache"),
	}
	// Sometimes make score-based compactions unlikely (high L0 threshold, large
	// Lbase) and the low-priority kinds likely: tombstone-density compactions
	// (few tombstones make a block dense), read-triggered compactions.
	if rapid.IntRange(0, 4).Draw(t, "lowprio") == 0 {
		o.L0Compaction = rapid.SampledFrom([]int{6, 10, 20}).Draw(t, "l0chi")
		o.L0CompactionFiles = 500
		o.LBaseMaxBytes = 1 << 20
		o.NumDel = rapid.SampledFrom([]int{1, 2, 5}).Draw(t, "numdel")
		o.TombDense = rapid.SampledFrom([]int{1, 10, 50}).Draw(t, "tombdense")
		o.ReadSampling = rapid.SampledFrom([]int{0, 1, -1}).Draw(t, "rsm")
	}
	o.FlushDelayMs = rapid.SampledFrom([]int{0, 0, 0, 0, 3, 10000, 3600000}).Draw(t, "fdelay")
	o.DisableWAL = rapid.IntRange(0, 5).Draw(t, "nowal") == 0
	o.WALDir = rapid.IntRange(0, 3).Draw(t, "waldir") == 0
	o.DisableAutoCompaction = rapid.IntRange(0, 5).Draw(t, "noauto") == 0
	o.DisableIngestFlush = rapid.IntRange(0, 3).Draw(t, "noif") == 0
	o.IngestSplit = rapid.Bool().Draw(t, "isplit")
	o.DelOnlyExcise = rapid.Bool().Draw(t, "doe")
	o.ValueBlocks = rapid.Bool().Draw(t, "vb")
	if o.FMV >= int(pebble.FormatValueSeparation) && rapid.Bool().Draw(t, "valsep") {
		o.ValSep = true
		o.ValSepMinSize = rapid.SampledFrom([]int{4, 10, 32, 64}).Draw(t, "vsmin")
		o.ValSepDepth = rapid.IntRange(1, 5).Draw(t, "vsdepth")
		o.ValSepGarbageLow = rapid.SampledFrom([]int{5, 30, 100}).Draw(t, "vsglow")
	}
	if p.BlobIngestPct > 0 && rapid.IntRange(0, 9).Draw(t, "fmvblob") < 4 {
		// ingestion of blob files needs one of the newest format versions
		o.FMV = int(pebble.FormatNewest)
	}
	if p.Opt != nil {
		p.Opt(t, &o)
	}
	return o
}

// Generate draws a complete plan for a profile.
func Generate(t *rapid.T, p Profile) Plan {
	if len(p.Alt) > 0 && rapid.IntRange(0, 99).Draw(t, "altprofile") < p.AltPct {
		name := p.Name
		p = p.Alt[rapid.IntRange(0, len(p.Alt)-1).Draw(t, "altprofilei")]
		p.Name = name + "/" + p.Name
	}
	g := &gen{t: t, p: p, st: NewState(), sd: map[string]*sdState{}, efosRg: map[int][][2]string{},
		iterOn: map[int]string{}, iterEf: map[int]int{}, ibOps: map[int][]Op{}}
	g.opt = GenOptions(t, p)
	var cp *CrashPlan
	if p.CrashGen != nil {
		cp = p.CrashGen(t, g.opt)
	}
	var sp *SchedPlan
	spct := p.SchedPct
	if spct == 0 {
		spct = 25
	}
	if spct > 0 && rapid.IntRange(0, 99).Draw(t, "schedon") < spct {
		sp = &SchedPlan{Salt: rapid.IntRange(1, 1<<20).Draw(t, "schedsalt"), Pct: rapid.SampledFrom([]int{10, 30, 60}).Draw(t, "schedpct"),
			Max: rapid.SampledFrom([]int{4, 30, 200}).Draw(t, "schedmax")}
		if p.CrashGen != nil && rapid.IntRange(0, 2).Draw(t, "holdman") == 0 {
			sp.HoldManifest = rapid.IntRange(1, 5).Draw(t, "holdmank")
		}
		if rapid.IntRange(0, 2).Draw(t, "holdcreate") == 0 {
			sp.HoldCreate = rapid.SampledFrom([]string{"sst", "blob", "any"}).Draw(t, "holdcreatecls")
			sp.HoldCreateK = rapid.IntRange(1, 4).Draw(t, "holdcreatek")
		}
	}
	n := rapid.IntRange(p.MinSteps, p.MaxSteps).Draw(t, "nsteps")
	for i := 0; i < n; i++ {
		g.step(fmt.Sprintf("s%d", i))
	}
	if g.wantHold {
		if sp == nil {
			sp = &SchedPlan{Salt: 1, Pct: 0, Max: 4}
		}
		sp.HoldManifest = rapid.IntRange(4, 8).Draw(t, "holdmanmotif")
	}
	return Plan{Profile: p.Name, Opt: g.opt, Steps: g.steps, Crash: cp, Sched: sp}
}

func (g *gen) readerChoice(label string) (string, int) {
	// db mostly; snapshots / batches / efos if open
	var ws []wchoice
	ws = append(ws, wchoice{"db", 6})
	if len(g.snaps) > 0 {
		ws = append(ws, wchoice{"snap", 4})
	}
	if len(g.ibs) > 0 {
		ws = append(ws, wchoice{"batch", 4})
	}
	on := pick(g.t, label+"on", ws)
	switch on {
	case "snap":
		return on, rapid.SampledFrom(g.snaps).Draw(g.t, label+"id")
	case "batch":
		return on, rapid.SampledFrom(g.ibs).Draw(g.t, label+"id")
	}
	return "db", 0
}

func (g *gen) step(label string) {
	var ws []wchoice
	for _, k := range stepOrder {
		w := g.p.W[k]
		switch k {
		case "snap":
			if len(g.snaps) >= g.p.MaxSnaps {
				w = 0
			}
		case "snapclose", "snapread":
			if len(g.snaps) == 0 {
				w = 0
			}
		case "iternew":
			if len(g.iters) >= g.p.MaxIters {
				w = 0
			}
		case "iterop", "iterclose", "iterclone":
			if len(g.iters) == 0 || (k == "iterclone" && len(g.iters) >= g.p.MaxIters) {
				w = 0
			}
		case "ibnew":
			if len(g.ibs) >= g.p.MaxBatches {
				w = 0
			}
		case "ibop", "ibcommit", "ibclose", "ibread":
			if len(g.ibs) == 0 {
				w = 0
			}
		case "efos":
			if len(g.efos) >= g.p.MaxEFOS {
				w = 0
			}
		case "efosread", "efoswait", "efosclose":
			if len(g.efos) == 0 {
				w = 0
			}
		case "ingestexcise", "excise":
			if g.fmv() < pebble.FormatVirtualSSTables {
				w = 0
			}
		case "motif":
			if w == 0 && !g.p.NoMotif {
				w = 3
			}
		}
		ws = append(ws, wchoice{k, w})
	}
	kind := pick(g.t, label+"kind", ws)
	if kind == "motif" {
		g.motif(label)
		return
	}
	g.emit(label, kind)
}

// emit generates one step of the given kind (the caller has checked that the
// kind is enabled in the current generator state).
func (g *gen) emit(label, kind string) {
	s := Step{K: kind}
	switch kind {
	case "write":
		o := g.writeOp(label, false)
		s.Ops = []Op{o}
		s.Sync = g.drawSync(label)
		g.commitOps(s.Ops)
	case "batch", "bigbatch":
		s.K = "write"
		n := rapid.IntRange(2, 8).Draw(g.t, label+"n")
		for i := 0; i < n; i++ {
			o := g.writeOp(fmt.Sprintf("%sb%d", label, i), false)
			s.Ops = append(s.Ops, o)
			g.sdNote(o) // so that a later sdel in the same batch respects the contract
		}
		s.Ops = append(s.Ops, g.rkPile(label)...)
		if kind == "bigbatch" {
			// one value large enough to push the batch over the large-batch threshold
			g.nval++
			s.Ops = append(s.Ops, Op{K: "set", A: g.key(label + "bigk"), V: fmt.Sprintf("v%d", g.nval),
				VLen: g.opt.MemTableSize/2 + rapid.IntRange(0, 2000).Draw(g.t, label+"bigl")})
			g.sdNote(s.Ops[len(s.Ops)-1])
		}
		s.Sync = g.drawSync(label)
		s.NoSyncWait = rapid.IntRange(0, 5).Draw(g.t, label+"nsw") == 0
		g.st = g.st.Apply(s.Ops)
		g.memDirty = true
	case "flush", "wait", "restart":
		if kind == "restart" {
			g.snaps, g.iters, g.ibs, g.efos = nil, nil, nil, nil
			if g.p.WALRelocate && !g.opt.DisableWAL && rapid.IntRange(0, 9).Draw(g.t, label+"reloc") < 4 {
				s.Flag = true
				s.N = rapid.IntRange(0, 1).Draw(g.t, label+"relocto")
			}
		}
		if kind != "wait" {
			g.unsyncd = false
		}
		if kind == "flush" {
			g.memDirty = false
		}
	case "compact":
		s.A, s.B = g.span(label + "sp")
		if rapid.Bool().Draw(g.t, label+"whole") {
			s.A, s.B = Prefixes[0], "z"
		}
		s.Flag = rapid.Bool().Draw(g.t, label+"par")
	case "ingest", "ingestexcise":
		s.Tables = g.tables(label)
		if g.p.BlobIngestPct > 0 && rapid.IntRange(0, 99).Draw(g.t, label+"blobs") < g.p.BlobIngestPct {
			// the sst+blob writer takes point sets only
			var ts [][]Op
			for _, t := range s.Tables {
				var keep []Op
				for _, o := range t {
					if o.K == "set" {
						keep = append(keep, o)
					}
				}
				if len(keep) > 0 {
					ts = append(ts, keep)
				}
			}
			if len(ts) > 0 {
				s.Tables, s.Blobs = ts, true
			}
		}
		if len(s.Tables) == 0 {
			s.K = "wait"
			break
		}
		g.preStructural()
		if s.Blobs && rapid.IntRange(0, 9).Draw(g.t, label+"blobmem") < 6 {
			// a synced commit of a key of the first table right before: the
			// ingestion overlaps the memtable and takes the flushable path
			// (recovered from the WAL if a crash precedes its flush)
			g.nval++
			o := Op{K: "set", A: s.Tables[0][0].A, V: fmt.Sprintf("v%d", g.nval)}
			g.steps = append(g.steps, Step{K: "write", Ops: []Op{o}, Sync: true})
			g.commitOps([]Op{o})
		}
		exA, exB := "", ""
		if kind == "ingestexcise" {
			s.A, s.B = g.span(label + "ex")
			exA, exB = s.A, s.B
			g.sdNote(Op{K: "delrange", A: s.A, B: s.B})
			g.raceEFOS(label, &s)
		}
		g.st = g.st.ApplyIngest(s.Tables, exA, exB)
		for _, t := range s.Tables {
			for _, o := range t {
				if o.K == "delrange" {
					g.sdNote(o)
				}
			}
		}
		for _, t := range s.Tables {
			for _, o := range t {
				if o.K != "delrange" {
					g.sdNote(o)
				}
			}
		}
	case "excise":
		g.preStructural()
		s.A, s.B = g.span(label + "ex")
		if rapid.IntRange(0, 7).Draw(g.t, label+"exall") == 0 {
			// (nearly) everything: every table - and with value separation every
			// blob file - loses its last reference at once, also those a job that
			// is in flight was going to rewrite
			s.A, s.B = Prefixes[0], Prefixes[len(Prefixes)-1]
		}
		n := g.st.clone()
		n.exciseSpan(s.A, s.B)
		g.st = n
		g.sdNote(Op{K: "delrange", A: s.A, B: s.B})
		g.raceEFOS(label, &s)
	case "snap":
		s.ID = g.newID()
		g.snaps = append(g.snaps, s.ID)
		if rapid.IntRange(0, 3).Draw(g.t, label+"then") == 0 {
			// a commit immediately after the snapshot gets exactly the snapshot's
			// sequence number: the boundary case of every "visible at snapshot" test.
			g.steps = append(g.steps, s)
			g.forcedWrite(label+"w", rapid.SampledFrom([]string{"delrange", "delrange", "del", "set", "merge", "rkset", "rkdel"}).Draw(g.t, label+"thenk"), true)
			return
		}
	case "snapclose":
		s.ID = rapid.SampledFrom(g.snaps).Draw(g.t, label+"id")
		g.snaps = remove(g.snaps, s.ID)
	case "get":
		s.On, s.ID2 = g.readerChoice(label)
		s.A = g.key(label + "k")
	case "snapread":
		s.K = rapid.SampledFrom([]string{"get", "scan"}).Draw(g.t, label+"rk")
		s.On, s.ID2 = "snap", rapid.SampledFrom(g.snaps).Draw(g.t, label+"id")
		if s.K == "get" {
			s.A = g.key(label + "k")
		} else {
			o := g.iterOpts(label + "o")
			s.IO = &o
			s.Flag = rapid.Bool().Draw(g.t, label+"rev")
		}
	case "scan":
		s.On, s.ID2 = g.readerChoice(label)
		o := g.iterOpts(label + "o")
		s.IO = &o
		s.Flag = rapid.Bool().Draw(g.t, label+"rev")
	case "iternew":
		s.ID = g.newID()
		s.On, s.ID2 = g.readerChoice(label)
		o := g.iterOpts(label + "o")
		s.IO = &o
		s.IOps = g.iterOps(label+"i", rapid.IntRange(0, g.p.IterOpsMax).Draw(g.t, label+"nops"), true)
		g.iters = append(g.iters, s.ID)
		g.iterOn[s.ID] = s.On
	case "iterop":
		s.ID = rapid.SampledFrom(g.iters).Draw(g.t, label+"id")
		s.IOps = g.iterOps(label+"i", rapid.IntRange(1, g.p.IterOpsMax).Draw(g.t, label+"nops"), false)
	case "iterclone":
		s.ID = rapid.SampledFrom(g.iters).Draw(g.t, label+"id")
		s.ID2 = g.newID()
		s.Flag = rapid.Bool().Draw(g.t, label+"refresh")
		if rapid.Bool().Draw(g.t, label+"newopts") {
			o := g.iterOpts(label + "o")
			s.IO = &o
		}
		s.IOps = g.iterOps(label+"i", rapid.IntRange(1, g.p.IterOpsMax).Draw(g.t, label+"nops"), true)
		g.iters = append(g.iters, s.ID2)
	case "iterclose":
		s.ID = rapid.SampledFrom(g.iters).Draw(g.t, label+"id")
		g.iters = remove(g.iters, s.ID)
	case "ibnew":
		s.ID = g.newID()
		g.ibs = append(g.ibs, s.ID)
	case "ibop":
		s.ID = rapid.SampledFrom(g.ibs).Draw(g.t, label+"id")
		n := rapid.IntRange(1, 4).Draw(g.t, label+"n")
		for i := 0; i < n; i++ {
			s.Ops = append(s.Ops, g.writeOp(fmt.Sprintf("%sb%d", label, i), true))
		}
		s.Ops = append(s.Ops, g.rkPile(label)...)
		g.ibOps[s.ID] = append(g.ibOps[s.ID], s.Ops...)
	case "ibread":
		s.K = rapid.SampledFrom([]string{"get", "scan"}).Draw(g.t, label+"rk")
		s.On, s.ID2 = "batch", rapid.SampledFrom(g.ibs).Draw(g.t, label+"id")
		if s.K == "get" {
			s.A = g.key(label + "k")
		} else {
			o := g.iterOpts(label + "o")
			s.IO = &o
			s.Flag = rapid.Bool().Draw(g.t, label+"rev")
		}
	case "ibcommit":
		s.ID = rapid.SampledFrom(g.ibs).Draw(g.t, label+"id")
		s.Sync = g.drawSync(label)
		g.ibs = remove(g.ibs, s.ID)
		g.commitOps(g.ibOps[s.ID])
		delete(g.ibOps, s.ID)
	case "ibclose":
		s.ID = rapid.SampledFrom(g.ibs).Draw(g.t, label+"id")
		g.ibs = remove(g.ibs, s.ID)
		delete(g.ibOps, s.ID)
	case "efos":
		s.ID = g.newID()
		// 1-2 disjoint protected ranges
		a, b := g.span(label + "r1")
		s.Spans = [][2]string{{a, b}}
		if rapid.Bool().Draw(g.t, label+"two") {
			ib := prefixIndex(b)
			if ib+2 < len(Prefixes) {
				c := rapid.IntRange(ib+1, len(Prefixes)-2).Draw(g.t, label+"r2a")
				d := rapid.IntRange(c+1, len(Prefixes)-1).Draw(g.t, label+"r2b")
				s.Spans = append(s.Spans, [2]string{Prefixes[c], Prefixes[d]})
			}
		}
		g.efos = append(g.efos, s.ID)
		g.efosRg[s.ID] = s.Spans
	case "efosread":
		id := rapid.SampledFrom(g.efos).Draw(g.t, label+"id")
		rg := rapid.SampledFrom(g.efosRg[id]).Draw(g.t, label+"rg")
		s.K = rapid.SampledFrom([]string{"get", "scan", "scan"}).Draw(g.t, label+"rk")
		s.On, s.ID2 = "efos", id
		if s.K == "get" {
			// a key inside the range
			ia, ib := prefixIndex(rg[0]), prefixIndex(rg[1])
			s.A = mkKey(Prefixes[rapid.IntRange(ia, ib-1).Draw(g.t, label+"p")], rapid.IntRange(0, MaxSuffix).Draw(g.t, label+"s"))
		} else {
			o := g.iterOpts(label + "o")
			o.Lower, o.Upper = rg[0], rg[1]
			s.IO = &o
			s.Flag = rapid.Bool().Draw(g.t, label+"rev")
		}
	case "efoswait", "efosclose":
		s.ID = rapid.SampledFrom(g.efos).Draw(g.t, label+"id")
		if kind == "efosclose" {
			g.efos = remove(g.efos, s.ID)
		}
	default:
		if f := extraGen[kind]; f != nil {
			if !f(g, label, &s) {
				return
			}
		} else {
			return
		}
	}
	g.steps = append(g.steps, s)
}

// extraGen lets other files register generators for additional step kinds.
var extraGen = map[string]func(g *gen, label string, s *Step) bool{}
