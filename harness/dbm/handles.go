package dbm

// Blob handle codec round trip (part of C44): the inline handle stored in an
// sstable for a separated value - reference id, value length, block id, value
// id, each a uvarint with hand-unrolled decoders - must decode to what was
// encoded for every field width (1..5 bytes), otherwise a value is fetched
// from the wrong block or slot. Blob files with more than 2^14 blocks or
// values longer than 2^14 bytes are out of reach of the DB-level histories, so
// the codec is driven directly with boundary-biased field values.

import (
	"fmt"

	"github.com/cockroachdb/pebble/internal/base"
	"github.com/cockroachdb/pebble/sstable/blob"
	"pgregory.net/rapid"
)

func genU32Boundary(t *rapid.T, label string) uint32 {
	switch rapid.IntRange(0, 3).Draw(t, label+"c") {
	case 0:
		return uint32(rapid.IntRange(0, 300).Draw(t, label+"s"))
	case 1:
		k := rapid.SampledFrom([]int{7, 14, 21, 28, 32}).Draw(t, label+"k")
		v := uint64(1)<<k + uint64(int64(rapid.IntRange(-2, 2).Draw(t, label+"d")))
		if k == 32 {
			v = uint64(1)<<32 - 1 - uint64(rapid.IntRange(0, 3).Draw(t, label+"d2"))
		}
		return uint32(v)
	default:
		return rapid.Uint32().Draw(t, label+"u")
	}
}

func genHandles(t *rapid.T) []HandlePlan {
	n := rapid.IntRange(1, 8).Draw(t, "nh")
	var hs []HandlePlan
	for i := 0; i < n; i++ {
		l := fmt.Sprintf("h%d", i)
		hs = append(hs, HandlePlan{Ref: genU32Boundary(t, l+"r"), ValueLen: genU32Boundary(t, l+"l"),
			BlockID: genU32Boundary(t, l+"b"), ValueID: genU32Boundary(t, l+"v")})
	}
	return hs
}

func execHandles(hs []HandlePlan) (map[string]int, error) {
	c := map[string]int{"handle-roundtrips": 0}
	for _, h := range hs {
		in := blob.InlineHandle{
			InlineHandlePreface: blob.InlineHandlePreface{ReferenceID: base.BlobReferenceID(h.Ref), ValueLen: h.ValueLen},
			HandleSuffix:        blob.HandleSuffix{BlockID: blob.BlockID(h.BlockID), ValueID: blob.BlockValueID(h.ValueID)},
		}
		// a few bytes of slack: the unrolled decoders may look one byte ahead
		buf := make([]byte, blob.MaxInlineHandleLength+8)
		n := in.Encode(buf)
		if n <= 0 || n > blob.MaxInlineHandleLength {
			return c, fmt.Errorf("InlineHandle%+v encodes to %d bytes (maximum %d)", h, n, blob.MaxInlineHandleLength)
		}
		pre, rest := blob.DecodeInlineHandlePreface(buf[:n+8])
		if pre != in.InlineHandlePreface {
			return c, fmt.Errorf("InlineHandle%+v: preface decodes to %+v", h, pre)
		}
		suf := blob.DecodeHandleSuffix(rest)
		if suf != in.HandleSuffix {
			return c, fmt.Errorf("InlineHandle%+v (encoded % x): suffix decodes to block %d value %d", h, buf[:n], suf.BlockID, suf.ValueID)
		}
		c["handle-roundtrips"]++
		if h.BlockID >= 1<<14 || h.ValueID >= 1<<14 || h.ValueLen >= 1<<14 || h.Ref >= 1<<14 {
			c["handle-roundtrips-wide-field"]++
		}
	}
	return c, nil
}
