package dbm

import (
	"context"
	"fmt"

	"github.com/cockroachdb/pebble/internal/base"
	"github.com/cockroachdb/pebble/internal/manifest"
	"github.com/cockroachdb/pebble/objstorage"
	"github.com/cockroachdb/pebble/sstable"
)

type keyVer struct {
	seq base.SeqNum
	pos int // position in the LSM: 0 = top L0 sublevel ... increasing downwards
	tbl base.TableNum
}

// checkVersionIndependent verifies the LSM level invariant of the current
// version from its metadata and from the tables' contents, independently of
// pebble's own level checker:
//   - tables of each level L1..L6 and of each L0 sublevel are ordered and do not overlap;
//   - overlapping L0 tables in different sublevels are ordered by sequence number;
//   - every point key of a table lies inside its recorded bounds and its
//     sequence number inside the recorded sequence range;
//   - for every user key, all versions stored at a higher position of the LSM
//     are newer than all versions stored at a lower position.
func checkVersionIndependent(r *Runner) error {
	ctx := context.Background()
	v := r.DB.DebugCurrentVersion()
	cmp := r.Opts.Comparer.Compare
	checkSlice := func(name string, ls manifest.LevelSlice) error {
		var prev *manifest.TableMetadata
		for f := range ls.All() {
			if base.InternalCompare(cmp, f.Smallest(), f.Largest()) > 0 {
				return fmt.Errorf("%s: table %s has smallest %s > largest %s", name, f.TableNum, f.Smallest(), f.Largest())
			}
			if prev != nil {
				c := cmp(prev.Largest().UserKey, f.Smallest().UserKey)
				if c > 0 || (c == 0 && !prev.Largest().IsExclusiveSentinel()) {
					return fmt.Errorf("%s: tables %s [%s,%s] and %s [%s,%s] overlap or are out of order", name,
						prev.TableNum, prev.Smallest(), prev.Largest(), f.TableNum, f.Smallest(), f.Largest())
				}
			}
			prev = f
		}
		return nil
	}
	for l := 1; l < manifest.NumLevels; l++ {
		if err := checkSlice(fmt.Sprintf("L%d", l), v.Levels[l].Slice()); err != nil {
			return err
		}
	}
	inSub := map[base.TableNum]int{}
	for i, ls := range v.L0SublevelFiles {
		if err := checkSlice(fmt.Sprintf("L0.%d", i), ls); err != nil {
			return err
		}
		for f := range ls.All() {
			if _, dup := inSub[f.TableNum]; dup {
				return fmt.Errorf("L0 table %s appears in two sublevels", f.TableNum)
			}
			inSub[f.TableNum] = i
		}
	}
	nL0 := 0
	for f := range v.Levels[0].All() {
		nL0++
		if _, ok := inSub[f.TableNum]; !ok {
			return fmt.Errorf("L0 table %s is in no sublevel", f.TableNum)
		}
	}
	if nL0 != len(inSub) {
		return fmt.Errorf("L0 has %d tables but the sublevels hold %d", nL0, len(inSub))
	}
	// overlapping L0 tables in different sublevels: higher sublevel = newer.
	for i := range v.L0SublevelFiles {
		for j := i + 1; j < len(v.L0SublevelFiles); j++ {
			for a := range v.L0SublevelFiles[i].All() {
				ab := a.UserKeyBounds()
				for b := range v.L0SublevelFiles[j].All() {
					bb := b.UserKeyBounds()
					if !ab.Overlaps(cmp, bb) {
						continue
					}
					if b.SeqNums.High < a.SeqNums.High || (b.SeqNums.High == a.SeqNums.High && b.SeqNums.Low < a.SeqNums.Low) {
						return fmt.Errorf("L0 sublevel %d table %s (seqnums %d-%d) overlaps sublevel %d table %s (seqnums %d-%d) but is not newer",
							j, b.TableNum, b.SeqNums.Low, b.SeqNums.High, i, a.TableNum, a.SeqNums.Low, a.SeqNums.High)
					}
				}
			}
		}
	}
	// contents
	perKey := map[string][]keyVer{}
	pos := 0
	visit := func(name string, ls manifest.LevelSlice, p int) error {
		for f := range ls.All() {
			if !f.HasPointKeys {
				continue
			}
			rh, err := r.DB.ObjProvider().OpenForReading(ctx, base.FileTypeTable, f.TableBacking.DiskFileNum, objstorage.OpenOptions{})
			if err != nil {
				return fmt.Errorf("%s: table %s: backing %s cannot be opened: %v", name, f.TableNum, f.TableBacking.DiskFileNum, err)
			}
			rd, err := sstable.NewReader(ctx, rh, r.Opts.MakeReaderOptions())
			if err != nil {
				return fmt.Errorf("%s: table %s: NewReader: %v", name, f.TableNum, err)
			}
			it, err := rd.NewPointIter(ctx, sstable.IterOptions{
				Transforms:           f.IterTransforms(),
				FilterBlockSizeLimit: sstable.NeverUseFilterBlock,
				ReaderProvider:       sstable.MakeTrivialReaderProvider(rd),
				BlobContext:          sstable.DebugHandlesBlobContext,
			})
			if err != nil {
				rd.Close()
				return fmt.Errorf("%s: table %s: NewPointIter: %v", name, f.TableNum, err)
			}
			lo, hi := f.PointKeyBounds.Smallest(), f.PointKeyBounds.Largest()
			var ferr error
			for kv := it.First(); kv != nil; kv = it.Next() {
				k := kv.K
				if f.Virtual {
					// a virtual table exposes the part of its backing inside its bounds
					if cmp(k.UserKey, lo.UserKey) < 0 {
						continue
					}
					if c := cmp(k.UserKey, hi.UserKey); c > 0 || (c == 0 && hi.IsExclusiveSentinel()) {
						break
					}
				} else {
					if base.InternalCompare(cmp, k, lo) < 0 || base.InternalCompare(cmp, k, hi) > 0 {
						ferr = fmt.Errorf("%s: table %s contains key %s outside its recorded point bounds [%s,%s]", name, f.TableNum, k, lo, hi)
						break
					}
				}
				if s := k.SeqNum(); s < f.SeqNums.Low || s > f.SeqNums.High {
					ferr = fmt.Errorf("%s: table %s contains key %s outside its recorded sequence range [%d,%d]", name, f.TableNum, k, f.SeqNums.Low, f.SeqNums.High)
					break
				}
				uk := string(k.UserKey)
				perKey[uk] = append(perKey[uk], keyVer{seq: k.SeqNum(), pos: p, tbl: f.TableNum})
			}
			if ferr == nil {
				ferr = it.Error()
			}
			it.Close()
			rd.Close()
			if ferr != nil {
				return ferr
			}
			r.C["levelcheck-tables-read"]++
		}
		return nil
	}
	for i := len(v.L0SublevelFiles) - 1; i >= 0; i-- {
		if err := visit(fmt.Sprintf("L0.%d", i), v.L0SublevelFiles[i], pos); err != nil {
			return err
		}
		pos++
	}
	for l := 1; l < manifest.NumLevels; l++ {
		if err := visit(fmt.Sprintf("L%d", l), v.Levels[l].Slice(), pos); err != nil {
			return err
		}
		pos++
	}
	for uk, vs := range perKey {
		// min seqnum per position, max seqnum per position
		for i := range vs {
			for j := range vs {
				if vs[i].pos < vs[j].pos && vs[i].seq <= vs[j].seq && !(vs[i].seq == 0 && vs[j].seq == 0) {
					return fmt.Errorf("level invariant violated for user key %q: table %s (LSM position %d) holds seqnum %d, table %s below it (position %d) holds seqnum %d",
						uk, vs[i].tbl, vs[i].pos, vs[i].seq, vs[j].tbl, vs[j].pos, vs[j].seq)
				}
			}
		}
	}
	r.C["levelchecks"]++
	return nil
}
