package dbm

// C14: background maintenance never changes what readers see.
//
// A "maint" step takes a digest of everything every open reader shows (latest
// state, each snapshot, each EFOS inside its ranges, each open iterator through
// a Clone with the iterator's own options), runs one maintenance operation,
// waits for quiescence, and takes the digest again. No write happens in
// between, so the two digests must be identical (metamorphic relation), and
// each must equal the model.

import (
	"context"
	"fmt"
	"sort"
	"strings"

	"github.com/cockroachdb/pebble"
	"pgregory.net/rapid"
)

// maintenance operation codes (Step.N)
const (
	maintFlush = iota
	maintCompactAll
	maintCompactSpan
	maintWait
	maintRatchet
	maintCloseSnapWait
	maintDelRangeFiles // not a pure maintenance op: handled as write + wait, see generator
	numMaint
)

var maintNames = []string{"flush", "compact-all", "compact-span", "wait", "ratchet", "close-snapshot+wait"}

func init() {
	extraSteps["maint"] = stepMaint
	extraGen["maint"] = func(g *gen, label string, s *Step) bool {
		s.N = rapid.SampledFrom([]int{maintFlush, maintFlush, maintCompactAll, maintCompactSpan, maintCompactSpan, maintWait, maintWait, maintRatchet, maintCloseSnapWait}).Draw(g.t, label+"m")
		switch s.N {
		case maintCompactSpan:
			s.A, s.B = g.span(label + "sp")
			s.Flag = rapid.Bool().Draw(g.t, label+"par")
		case maintCompactAll:
			s.A, s.B = Prefixes[0], "z"
			s.Flag = rapid.Bool().Draw(g.t, label+"par")
		case maintRatchet:
			cur := int(g.fmv())
			if cur >= int(pebble.FormatNewest) {
				s.N = maintWait
			} else {
				s.ID2 = rapid.IntRange(cur+1, int(pebble.FormatNewest)).Draw(g.t, label+"tgt")
				g.fmvNow = s.ID2
			}
		case maintCloseSnapWait:
			if len(g.snaps) == 0 {
				s.N = maintWait
			} else {
				s.ID = g.snaps[0] // the oldest: lets elision / delete-only compactions proceed
				g.snaps = remove(g.snaps, s.ID)
			}
		}
		if s.N == maintFlush {
			g.unsyncd = false
			g.memDirty = false
		}
		return true
	}
}

// transcript scans it from First to the end and from Last to the start and
// renders every position.
func transcript(it *pebble.Iterator) (string, error) {
	var b strings.Builder
	for ok := it.First(); ok; ok = it.Next() {
		b.WriteString(realPos(it).String())
		b.WriteByte('\n')
	}
	if err := it.Error(); err != nil {
		return "", err
	}
	b.WriteString("--reverse--\n")
	for ok := it.Last(); ok; ok = it.Prev() {
		b.WriteString(realPos(it).String())
		b.WriteByte('\n')
	}
	if err := it.Error(); err != nil {
		return "", err
	}
	return b.String(), nil
}

type digestEntry struct {
	name string
	text string
	// st / model options for comparison with the model (nil: not compared)
	m *IterModel
}

// modelTranscript renders what transcript must produce according to the model.
func modelTranscript(m *IterModel) string {
	cp := *m
	cp.ClearPrefix()
	var b strings.Builder
	for p := cp.FirstGE("", false); p.Valid; p = cp.NextAfter(p.Key) {
		b.WriteString(p.String())
		b.WriteByte('\n')
	}
	b.WriteString("--reverse--\n")
	for p := cp.LastLT(""); p.Valid; p = cp.LastLT(p.Key) {
		b.WriteString(p.String())
		b.WriteByte('\n')
	}
	return b.String()
}

// digest renders what every open reader shows.
func (r *Runner) digest() ([]digestEntry, error) {
	var out []digestEntry
	add := func(name string, it *pebble.Iterator, err error, m *IterModel) error {
		if err != nil {
			return fmt.Errorf("%s: NewIter/Clone: %v", name, err)
		}
		t, terr := transcript(it)
		cerr := it.Close()
		if terr != nil {
			return fmt.Errorf("%s: iterator error: %v", name, terr)
		}
		if cerr != nil {
			return fmt.Errorf("%s: iterator Close: %v", name, cerr)
		}
		out = append(out, digestEntry{name: name, text: t, m: m})
		return nil
	}
	both := IterOpts{KT: KTBoth}
	it, err := r.DB.NewIter(r.iterOptions(both))
	if e := add("latest", it, err, NewIterModel(r.Latest(), both)); e != nil {
		return nil, e
	}
	var ids []int
	for id := range r.snaps {
		ids = append(ids, id)
	}
	sort.Ints(ids)
	for _, id := range ids {
		s := r.snaps[id]
		if len(s.excised) > 0 {
			continue // documented exception: excised data may disappear from classic snapshots
		}
		it, err := s.s.NewIter(r.iterOptions(both))
		if e := add(fmt.Sprintf("snapshot#%d", id), it, err, NewIterModel(r.Versions[s.ver], both)); e != nil {
			return nil, e
		}
	}
	ids = ids[:0]
	for id := range r.efos {
		ids = append(ids, id)
	}
	sort.Ints(ids)
	for _, id := range ids {
		s := r.efos[id]
		for _, rg := range s.ranges {
			o := IterOpts{KT: KTBoth, Lower: rg[0], Upper: rg[1]}
			it, err := s.s.NewIter(r.iterOptions(o))
			if e := add(fmt.Sprintf("efos#%d[%s,%s)", id, rg[0], rg[1]), it, err, NewIterModel(r.Versions[s.ver], o)); e != nil {
				return nil, e
			}
		}
	}
	ids = ids[:0]
	for id := range r.iters {
		ids = append(ids, id)
	}
	sort.Ints(ids)
	for _, id := range ids {
		h := r.iters[id]
		if rd := r.restrictionOf(h); rd != nil && !rd.readable(h.m.o) {
			continue
		}
		c, err := h.it.Clone(pebble.CloneOptions{})
		var m *IterModel
		if h.batch == nil {
			cp := *h.m
			m = &cp
		}
		if e := add(fmt.Sprintf("iter#%d(clone)", id), c, err, m); e != nil {
			return nil, e
		}
	}
	return out, nil
}

func firstDiff(a, b string) string {
	la, lb := strings.Split(a, "\n"), strings.Split(b, "\n")
	for i := 0; i < len(la) || i < len(lb); i++ {
		x, y := "<end>", "<end>"
		if i < len(la) {
			x = la[i]
		}
		if i < len(lb) {
			y = lb[i]
		}
		if x != y {
			return fmt.Sprintf("line %d: %q vs %q", i, x, y)
		}
	}
	return "no difference"
}

func (r *Runner) compactionCounts() map[string]int {
	r.Ev.mu.Lock()
	defer r.Ev.mu.Unlock()
	m := map[string]int{"flush": r.Ev.Flushes}
	for k, v := range r.Ev.Compactions {
		m[k] = v
	}
	return m
}

func stepMaint(r *Runner, s Step) error {
	ctx := context.Background()
	before, err := r.digest()
	if err != nil {
		return fmt.Errorf("digest before maintenance: %v", err)
	}
	for _, d := range before {
		if d.m != nil {
			if want := modelTranscript(d.m); want != d.text {
				return fmt.Errorf("before maintenance, %s differs from the model: %s", d.name, firstDiff(d.text, want))
			}
		}
	}
	c0 := r.compactionCounts()
	nReaders := len(r.snaps) + len(r.efos) + len(r.iters)
	name := "?"
	if s.N >= 0 && s.N < len(maintNames) {
		name = maintNames[s.N]
	}
	switch s.N {
	case maintFlush:
		if err := r.DB.Flush(); err != nil {
			return fmt.Errorf("Flush: unexpected error: %v", err)
		}
		r.markDurable()
	case maintCompactAll, maintCompactSpan:
		if s.A == "" || s.B == "" || cmpKey(s.A, s.B) >= 0 {
			return nil
		}
		if err := r.DB.Compact(ctx, []byte(s.A), []byte(s.B), s.Flag); err != nil {
			return fmt.Errorf("Compact: unexpected error: %v", err)
		}
	case maintWait:
	case maintRatchet:
		tgt := pebble.FormatMajorVersion(s.ID2)
		if tgt > r.DB.FormatMajorVersion() && tgt <= pebble.FormatNewest {
			r.vmu.Lock()
			r.FMVPending = int(tgt)
			r.vmu.Unlock()
			if err := r.DB.RatchetFormatMajorVersion(tgt); err != nil {
				return fmt.Errorf("RatchetFormatMajorVersion(%d): unexpected error: %v", tgt, err)
			}
			r.vmu.Lock()
			r.FMVDurable, r.FMVPending = int(r.DB.FormatMajorVersion()), 0
			r.vmu.Unlock()
			r.C["ratchets"]++
		}
	case maintCloseSnapWait:
		if h := r.snaps[s.ID]; h != nil {
			delete(r.snaps, s.ID)
			if err := h.s.Close(); err != nil {
				return fmt.Errorf("snapshot Close: %v", err)
			}
			// the closed snapshot is no longer part of the digest
			kept := before[:0:0]
			for _, d := range before {
				if d.name != fmt.Sprintf("snapshot#%d", s.ID) {
					kept = append(kept, d)
				}
			}
			before = kept
			nReaders--
		}
	default:
		return nil
	}
	r.Wait()
	after, err := r.digest()
	if err != nil {
		return fmt.Errorf("digest after maintenance (%s): %v", name, err)
	}
	c1 := r.compactionCounts()
	var kinds []string
	for k, v := range c1 {
		if v > c0[k] {
			kinds = append(kinds, k)
		}
	}
	sort.Strings(kinds)
	if len(after) != len(before) {
		return fmt.Errorf("harness: digest sizes differ (%d vs %d)", len(before), len(after))
	}
	for i := range before {
		if before[i].name != after[i].name {
			return fmt.Errorf("harness: digest entries differ (%s vs %s)", before[i].name, after[i].name)
		}
		if before[i].text != after[i].text {
			return fmt.Errorf("maintenance (%s; background work finished meanwhile: %v) changed what %s shows: %s", name, kinds, before[i].name, firstDiff(before[i].text, after[i].text))
		}
	}
	r.C["maint-steps"]++
	r.C["maint-digest-entries"] += len(after)
	for _, k := range kinds {
		r.C["maint-kind="+k] += c1[k] - c0[k]
		if nReaders > 0 {
			r.C["maint-kind-with-readers="+k] += c1[k] - c0[k]
		}
	}
	if len(kinds) > 0 && nReaders > 0 {
		r.C["maint-with-work-and-readers"]++
	}
	return nil
}
