// Package dbm is the DB-level model-based engine ("engine A" of DESIGN.md):
// a reference model of Pebble's documented key-value semantics, a plan
// language, a generator and a deterministic executor that compares every read
// of a real pebble.DB with the model.
package dbm

import (
	"bytes"
	"fmt"
	"sort"
	"strconv"
	"strings"

	"github.com/cockroachdb/pebble/internal/testkeys"
)

// ---------------------------------------------------------------- keys

// Prefixes is the universe of bare key prefixes (sorted). Range-key and
// range-deletion bounds are always bare prefixes from this list.
var Prefixes = []string{"a", "aa", "ab", "b", "ba", "bb", "c", "ca", "d", "e", "f"}

// MaxSuffix is the largest point/range-key suffix number (@1..@MaxSuffix); 0 means no suffix.
const MaxSuffix = 6

func mkKey(prefix string, sfx int) string {
	if sfx <= 0 {
		return prefix
	}
	return prefix + "@" + strconv.Itoa(sfx)
}

// splitKey returns the bare prefix and suffix number (0 if none).
func splitKey(k string) (string, int) {
	i := strings.LastIndexByte(k, '@')
	if i < 0 {
		return k, 0
	}
	n, err := strconv.Atoi(k[i+1:])
	if err != nil {
		panic("bad key " + k)
	}
	return k[:i], n
}

func cmpKey(a, b string) int { return testkeys.Comparer.Compare([]byte(a), []byte(b)) }

func sfxBytes(n int) []byte {
	if n <= 0 {
		return nil
	}
	return []byte("@" + strconv.Itoa(n))
}

func prefixIndex(p string) int {
	for i, q := range Prefixes {
		if q == p {
			return i
		}
	}
	return -1
}

// ---------------------------------------------------------------- state

// State is one immutable version of the logical database contents.
type State struct {
	Points map[string]string // user key -> value
	// RK[i] holds the range keys covering atom [Prefixes[i], Prefixes[i+1]):
	// suffix number -> value.
	RK []map[int]string
}

func NewState() *State {
	return &State{Points: map[string]string{}, RK: make([]map[int]string, len(Prefixes)-1)}
}

func (s *State) clone() *State {
	n := &State{Points: make(map[string]string, len(s.Points)), RK: make([]map[int]string, len(s.RK))}
	for k, v := range s.Points {
		n.Points[k] = v
	}
	for i, m := range s.RK {
		if len(m) > 0 {
			c := make(map[int]string, len(m))
			for k, v := range m {
				c[k] = v
			}
			n.RK[i] = c
		}
	}
	return n
}

func (s *State) Equal(o *State) bool {
	if len(s.Points) != len(o.Points) {
		return false
	}
	for k, v := range s.Points {
		if ov, ok := o.Points[k]; !ok || ov != v {
			return false
		}
	}
	for i := range s.RK {
		if len(s.RK[i]) != len(o.RK[i]) {
			return false
		}
		for k, v := range s.RK[i] {
			if ov, ok := o.RK[i][k]; !ok || ov != v {
				return false
			}
		}
	}
	return true
}

// Op is one logical write operation.
type Op struct {
	K    string `json:"k"`            // set del delsized sdel merge delrange rkset rkunset rkdel logdata
	A    string `json:"a,omitempty"`  // key, or span start
	B    string `json:"b,omitempty"`  // span end
	S    int    `json:"s,omitempty"`  // range-key suffix number
	V    string `json:"v,omitempty"`  // value tag (unique per op)
	VLen int    `json:"vl,omitempty"` // value is padded to this length if larger than the tag
	N    int    `json:"n,omitempty"`  // delsized size hint
}

func (o Op) String() string {
	switch o.K {
	case "set", "merge":
		return fmt.Sprintf("%s(%s,%s/%d)", o.K, o.A, o.V, o.VLen)
	case "del", "sdel", "delsized":
		return fmt.Sprintf("%s(%s)", o.K, o.A)
	case "delrange", "rkdel":
		return fmt.Sprintf("%s[%s,%s)", o.K, o.A, o.B)
	case "rkset":
		return fmt.Sprintf("rkset[%s,%s)@%d=%s", o.A, o.B, o.S, o.V)
	case "rkunset":
		return fmt.Sprintf("rkunset[%s,%s)@%d", o.A, o.B, o.S)
	}
	return o.K
}

// Value materializes the value bytes of an op: the tag, padded with a
// deterministic pattern up to VLen.
func (o Op) Value() []byte {
	if o.VLen <= len(o.V) {
		return []byte(o.V)
	}
	b := make([]byte, o.VLen)
	copy(b, o.V)
	for i := len(o.V); i < o.VLen; i++ {
		b[i] = byte('A' + (i*7+len(o.V))%23)
	}
	return b
}

func inSpan(k, a, b string) bool { return cmpKey(k, a) >= 0 && cmpKey(k, b) < 0 }

// apply mutates s (which must be a private clone).
func (s *State) apply(o Op) {
	switch o.K {
	case "set":
		s.Points[o.A] = string(o.Value())
	case "merge":
		// default merger: concatenation (base.DefaultMerger)
		s.Points[o.A] = s.Points[o.A] + string(o.Value())
	case "del", "sdel", "delsized":
		delete(s.Points, o.A)
	case "delrange":
		for k := range s.Points {
			if inSpan(k, o.A, o.B) {
				delete(s.Points, k)
			}
		}
	case "rkset", "rkunset", "rkdel":
		ia, ib := prefixIndex(o.A), prefixIndex(o.B)
		if ia < 0 || ib < 0 || ia >= ib {
			panic("bad range key bounds " + o.String())
		}
		for i := ia; i < ib; i++ {
			switch o.K {
			case "rkset":
				if s.RK[i] == nil {
					s.RK[i] = map[int]string{}
				}
				s.RK[i][o.S] = string(o.Value())
			case "rkunset":
				delete(s.RK[i], o.S)
			case "rkdel":
				s.RK[i] = nil
			}
		}
	case "logdata":
	default:
		panic("unknown op " + o.K)
	}
}

// Apply returns a new state with ops applied sequentially (batch semantics).
func (s *State) Apply(ops []Op) *State {
	n := s.clone()
	for _, o := range ops {
		n.apply(o)
	}
	return n
}

// exciseSpan removes every point and range key in [a,b) (bare prefixes).
func (s *State) exciseSpan(a, b string) {
	s.apply(Op{K: "delrange", A: a, B: b})
	s.apply(Op{K: "rkdel", A: a, B: b})
}

// ApplyIngest applies the tables of one ingestion atomically. All entries of
// an ingestion share one sequence number: a range deletion does not delete a
// point of the same table set, a RANGEKEYDEL/UNSET does not remove a
// RANGEKEYSET of the same ingestion (SET sorts before UNSET before DEL at equal
// seqnum), but all of them act on older data. excise (optional) is applied
// first.
func (s *State) ApplyIngest(tables [][]Op, exA, exB string) *State {
	n := s.clone()
	if exA != "" {
		n.exciseSpan(exA, exB)
	}
	phase := func(kinds ...string) {
		for _, t := range tables {
			for _, o := range t {
				for _, k := range kinds {
					if o.K == k {
						n.apply(o)
					}
				}
			}
		}
	}
	phase("delrange")
	phase("set", "del", "merge")
	phase("rkdel")
	phase("rkunset")
	phase("rkset")
	return n
}

// ---------------------------------------------------------------- spans

type rkv struct {
	S int
	V string
}

// Span is a defragmented range-key span.
type Span struct {
	Start, End string
	Keys       []rkv // sorted by suffix order (larger number first)
}

func rkEqual(a, b map[int]string) bool {
	if len(a) != len(b) {
		return false
	}
	for k, v := range a {
		if ov, ok := b[k]; !ok || ov != v {
			return false
		}
	}
	return true
}

func rkList(m map[int]string) []rkv {
	l := make([]rkv, 0, len(m))
	for k, v := range m {
		l = append(l, rkv{k, v})
	}
	// suffix order of testkeys: larger number sorts first.
	sort.Slice(l, func(i, j int) bool { return l[i].S > l[j].S })
	return l
}

// Spans returns the maximal runs of atoms with identical non-empty range-key sets.
func (s *State) Spans() []Span {
	var out []Span
	i := 0
	for i < len(s.RK) {
		if len(s.RK[i]) == 0 {
			i++
			continue
		}
		j := i
		for j+1 < len(s.RK) && rkEqual(s.RK[i], s.RK[j+1]) {
			j++
		}
		out = append(out, Span{Start: Prefixes[i], End: Prefixes[j+1], Keys: rkList(s.RK[i])})
		i = j + 1
	}
	return out
}

type kv struct{ K, V string }

// SortedPoints returns the points in comparer order.
func (s *State) SortedPoints() []kv {
	l := make([]kv, 0, len(s.Points))
	for k, v := range s.Points {
		l = append(l, kv{k, v})
	}
	sort.Slice(l, func(i, j int) bool { return cmpKey(l[i].K, l[j].K) < 0 })
	return l
}

// ---------------------------------------------------------------- iterator model

const (
	KTPoints = 0
	KTRanges = 1
	KTBoth   = 2
)

// IterOpts are the modelled iterator options.
type IterOpts struct {
	Lower string `json:"lo,omitempty"` // "" = none
	Upper string `json:"hi,omitempty"` // "" = none
	KT    int    `json:"kt,omitempty"`
	Mask  int    `json:"mask,omitempty"`  // RangeKeyMasking.Suffix number; 0 = no masking
	MaskF bool   `json:"maskf,omitempty"` // also install the block-property filter mask
}

// Pos is what the model says an iterator shows at a position.
type Pos struct {
	Valid    bool
	Key      string
	HasPoint bool
	Value    string
	HasRange bool
	RStart   string
	REnd     string
	RKeys    []rkv
}

func (p Pos) String() string {
	if !p.Valid {
		return "<invalid>"
	}
	s := p.Key
	if p.HasPoint {
		v := p.Value
		if len(v) > 24 {
			v = v[:24] + fmt.Sprintf("..(%d)", len(p.Value))
		}
		s += "=" + v
	}
	if p.HasRange {
		s += fmt.Sprintf(" [%s,%s)%v", p.RStart, p.REnd, p.RKeys)
	}
	return s
}

// IterModel computes positions for one immutable view.
type IterModel struct {
	pts   []kv
	spans []Span
	o     IterOpts
	// prefix mode
	prefix    string
	hasPrefix bool
}

func NewIterModel(s *State, o IterOpts) *IterModel {
	return &IterModel{pts: s.SortedPoints(), spans: s.Spans(), o: o}
}

func (m *IterModel) SetOpts(o IterOpts) { m.o = o; m.hasPrefix = false }
func (m *IterModel) SetPrefix(p string) { m.prefix = p; m.hasPrefix = true }
func (m *IterModel) ClearPrefix()       { m.hasPrefix = false }

// bounds returns the effective [lo,hi) ("" = unbounded).
func (m *IterModel) bounds() (lo, hi string) {
	lo, hi = m.o.Lower, m.o.Upper
	if m.hasPrefix {
		if lo == "" || cmpKey(m.prefix, lo) > 0 {
			lo = m.prefix
		}
		succ := m.prefix + "\x00"
		if hi == "" || cmpKey(succ, hi) < 0 {
			hi = succ
		}
	}
	return lo, hi
}

// cmpKeyRaw compares keys where one may be an immediate successor (prefix+"\x00"),
// which is a valid bare prefix for the testkeys comparer.
func cmpKeyRaw(a, b string) int { return cmpKey(a, b) }

func (m *IterModel) inBounds(k string) bool {
	lo, hi := m.bounds()
	if lo != "" && cmpKey(k, lo) < 0 {
		return false
	}
	if hi != "" && cmpKey(k, hi) >= 0 {
		return false
	}
	return true
}

// clipped returns the spans intersected with the effective bounds.
func (m *IterModel) clipped() []Span {
	if m.o.KT == KTPoints {
		return nil
	}
	lo, hi := m.bounds()
	var out []Span
	for _, s := range m.spans {
		cs, ce := s.Start, s.End
		if lo != "" && cmpKey(lo, cs) > 0 {
			cs = lo
		}
		if hi != "" && cmpKey(hi, ce) < 0 {
			ce = hi
		}
		if cmpKey(cs, ce) < 0 {
			out = append(out, Span{Start: cs, End: ce, Keys: s.Keys})
		}
	}
	return out
}

func (m *IterModel) covering(k string) *Span {
	for _, s := range m.clipped() {
		if inSpan(k, s.Start, s.End) {
			c := s
			return &c
		}
	}
	return nil
}

// masked reports whether the point key k is hidden by range-key masking.
func (m *IterModel) masked(k string) bool {
	if m.o.Mask <= 0 || m.o.KT != KTBoth {
		return false
	}
	_, p := splitKey(k)
	if p == 0 {
		return false
	}
	// masking uses the range keys covering k (bounds do not matter for cover).
	for _, s := range m.spans {
		if inSpan(k, s.Start, s.End) {
			for _, r := range s.Keys {
				// hidden iff s <= r < p in suffix order, i.e. n_p < n_r <= n_s.
				if r.S <= m.o.Mask && p < r.S {
					return true
				}
			}
		}
	}
	return false
}

func (m *IterModel) visiblePoints() []kv {
	if m.o.KT == KTRanges {
		return nil
	}
	var out []kv
	for _, p := range m.pts {
		if !m.inBounds(p.K) || m.masked(p.K) {
			continue
		}
		if m.hasPrefix {
			if pp, _ := splitKey(p.K); pp != m.prefix {
				continue
			}
		}
		out = append(out, p)
	}
	return out
}

// At describes the position at key k (k must be a point or inside/at a span).
func (m *IterModel) At(k string) Pos {
	p := Pos{Valid: true, Key: k}
	for _, q := range m.visiblePoints() {
		if q.K == k {
			p.HasPoint, p.Value = true, q.V
		}
	}
	if c := m.covering(k); c != nil {
		p.HasRange, p.RStart, p.REnd, p.RKeys = true, c.Start, c.End, c.Keys
	}
	if !p.HasPoint && !p.HasRange {
		return Pos{}
	}
	return p
}

// FirstGE returns the first position >= k. If synthetic is true a seek key
// strictly inside a span is itself a position.
func (m *IterModel) FirstGE(k string, synthetic bool) Pos {
	lo, _ := m.bounds()
	if lo != "" && (k == "" || cmpKey(k, lo) < 0) {
		k = lo
	}
	best := ""
	have := false
	consider := func(c string) {
		if k != "" && cmpKey(c, k) < 0 {
			return
		}
		if !have || cmpKey(c, best) < 0 {
			best, have = c, true
		}
	}
	for _, p := range m.visiblePoints() {
		consider(p.K)
	}
	for _, s := range m.clipped() {
		consider(s.Start)
		if synthetic && k != "" && cmpKey(s.Start, k) < 0 && cmpKey(k, s.End) < 0 {
			consider(k)
		}
	}
	if !have {
		return Pos{}
	}
	return m.At(best)
}

// LastLT returns the last position < k ("" = +inf).
func (m *IterModel) LastLT(k string) Pos {
	_, hi := m.bounds()
	if hi != "" && (k == "" || cmpKey(k, hi) > 0) {
		k = hi
	}
	best := ""
	have := false
	consider := func(c string) {
		if k != "" && cmpKey(c, k) >= 0 {
			return
		}
		if !have || cmpKey(c, best) > 0 {
			best, have = c, true
		}
	}
	for _, p := range m.visiblePoints() {
		consider(p.K)
	}
	for _, s := range m.clipped() {
		consider(s.Start)
	}
	if !have {
		return Pos{}
	}
	return m.At(best)
}

// NextAfter returns the first position strictly greater than k.
func (m *IterModel) NextAfter(k string) Pos {
	best := ""
	have := false
	consider := func(c string) {
		if cmpKey(c, k) <= 0 {
			return
		}
		if !have || cmpKey(c, best) < 0 {
			best, have = c, true
		}
	}
	for _, p := range m.visiblePoints() {
		consider(p.K)
	}
	for _, s := range m.clipped() {
		consider(s.Start)
	}
	if !have {
		return Pos{}
	}
	return m.At(best)
}

// NextPrefixAfter returns the first position whose prefix is greater than the prefix of k.
func (m *IterModel) NextPrefixAfter(k string) Pos {
	pk, _ := splitKey(k)
	best := ""
	have := false
	consider := func(c string) {
		pc, _ := splitKey(c)
		if bytes.Compare([]byte(pc), []byte(pk)) <= 0 {
			return
		}
		if !have || cmpKey(c, best) < 0 {
			best, have = c, true
		}
	}
	for _, p := range m.visiblePoints() {
		consider(p.K)
	}
	for _, s := range m.clipped() {
		consider(s.Start)
	}
	if !have {
		return Pos{}
	}
	return m.At(best)
}

// hiddenCount returns the number of in-bounds points hidden by masking, but
// only if at least one point under a range key stays visible (the
// non-triviality rule of C09).
func (m *IterModel) hiddenCount() int {
	if m.o.Mask <= 0 || m.o.KT != KTBoth {
		return 0
	}
	hidden, shownUnder := 0, 0
	for _, p := range m.pts {
		if !m.inBounds(p.K) {
			continue
		}
		if m.masked(p.K) {
			hidden++
		} else if m.covering(p.K) != nil {
			shownUnder++
		}
	}
	if shownUnder == 0 {
		return 0
	}
	return hidden
}
