package dbm

import (
	"fmt"
	"strings"
)

// OptPlan is the drawn DB configuration (everything else is Pebble's default).
type OptPlan struct {
	FMV                   int   `json:"fmv"` // pebble.FormatMajorVersion
	MemTableSize          int   `json:"mem"`
	MemStop               int   `json:"memstop"`
	L0Compaction          int   `json:"l0c"`
	L0CompactionFiles     int   `json:"l0f"`
	LBaseMaxBytes         int64 `json:"lbase"`
	TargetFileSize        int64 `json:"tfs"`
	BlockSize             int   `json:"bs"`
	IndexBlockSize        int   `json:"ibs"`
	RestartInterval       int   `json:"ri"`
	Compression           int   `json:"comp"`
	Filter                int   `json:"filt"`
	MaxManifest           int64 `json:"maxman"`
	DisableWAL            bool  `json:"nowal,omitempty"`
	WALDir                bool  `json:"waldir,omitempty"`
	DisableAutoCompaction bool  `json:"noauto,omitempty"`
	ConcurrencyMax        int   `json:"conc"`
	ValSep                bool  `json:"valsep,omitempty"`
	ValSepMinSize         int   `json:"vsmin,omitempty"`
	ValSepDepth           int   `json:"vsdepth,omitempty"`
	ValSepGarbageLow      int   `json:"vsglow,omitempty"` // percent
	DisableIngestFlush    bool  `json:"noif,omitempty"`
	IngestSplit           bool  `json:"isplit,omitempty"`
	DelOnlyExcise         bool  `json:"doe,omitempty"`
	MultiLevel            int   `json:"ml,omitempty"`
	FlushSplitBytes       int64 `json:"fsb,omitempty"`
	CacheSize             int64 `json:"cache,omitempty"`
	BundleSize            int   `json:"bundle,omitempty"`
	CheckLevels           bool  `json:"chk,omitempty"` // DebugCheck = DebugCheckLevels
	ValueBlocks           bool  `json:"vb,omitempty"`
	FilesCheck            bool  `json:"files,omitempty"` // compare the directory with the version at wait/restart steps
	// NumDel / TombDense: Options.NumDeletionsThreshold and
	// TombstoneDenseCompactionThreshold (percent); 0 = Pebble's defaults.
	NumDel    int `json:"numdel,omitempty"`
	TombDense int `json:"tombdense,omitempty"`
	// ReadSampling: Options.ReadSamplingMultiplier (0 = default; small positive
	// values make read-triggered compactions likely).
	ReadSampling int `json:"rsm,omitempty"`
	// FlushDelayMs: Options.FlushDelayDeleteRange and FlushDelayRangeKey in
	// milliseconds (0 = Pebble's default: no delayed flush).
	FlushDelayMs int `json:"fdelay,omitempty"`
}

// IterOp is one iterator operation.
type IterOp struct {
	Op    string    `json:"op"` // first last seekge seeklt seekprefixge next prev nextprefix seekgel seekltl nextl prevl setbounds setopts
	Key   string    `json:"key,omitempty"`
	Limit string    `json:"lim,omitempty"`
	Opts  *IterOpts `json:"opts,omitempty"`
}

func (o IterOp) String() string {
	s := o.Op
	if o.Key != "" {
		s += "(" + o.Key
		if o.Limit != "" {
			s += "," + o.Limit
		}
		s += ")"
	} else if o.Limit != "" {
		s += "(" + o.Limit + ")"
	}
	if o.Opts != nil {
		s += fmt.Sprintf("%+v", *o.Opts)
	}
	return s
}

// Step is one step of a plan.
type Step struct {
	K string `json:"k"`
	// write, batch, ibop: the ops; a "write" step with one op uses the direct DB
	// method, with several ops a Batch.
	Ops  []Op `json:"ops,omitempty"`
	Sync bool `json:"sync,omitempty"`
	// NoSyncWait commits through ApplyNoSyncWait followed by SyncWait.
	NoSyncWait bool `json:"nsw,omitempty"`
	// ingest
	Tables [][]Op `json:"tables,omitempty"`
	// span for ingest-and-excise / excise / compact; key for get
	A string `json:"a,omitempty"`
	B string `json:"b,omitempty"`
	// handle ids
	ID  int `json:"id,omitempty"`
	ID2 int `json:"id2,omitempty"`
	// On names the reader a get/scan/iternew applies to: "db", "snap", "batch", "efos"
	On   string    `json:"on,omitempty"`
	IO   *IterOpts `json:"io,omitempty"`
	IOps []IterOp  `json:"iops,omitempty"`
	// Flag: compact parallelize; iterclone refresh-batch-view; scan reverse; checkpoint flushWAL
	Flag bool `json:"flag,omitempty"`
	// Spans: EFOS protected ranges / checkpoint restrict spans (pairs of bare prefixes)
	Spans [][2]string `json:"spans,omitempty"`
	// N: ratchet target version / misc
	N int `json:"n,omitempty"`
	// Blobs: ingest / ingestexcise writes its tables with separated values
	// (external blob files, DB.IngestAndExciseWithBlobs) where the format allows.
	Blobs bool `json:"blobs,omitempty"`
}

func (s Step) String() string {
	var b strings.Builder
	b.WriteString(s.K)
	if s.On != "" {
		fmt.Fprintf(&b, " on=%s", s.On)
	}
	if s.ID != 0 || s.K == "snap" || s.K == "iternew" {
		fmt.Fprintf(&b, " #%d", s.ID)
	}
	if s.ID2 != 0 {
		fmt.Fprintf(&b, " #%d", s.ID2)
	}
	if len(s.Ops) > 0 {
		fmt.Fprintf(&b, " %v", s.Ops)
	}
	for _, t := range s.Tables {
		fmt.Fprintf(&b, " table%v", t)
	}
	if s.A != "" || s.B != "" {
		fmt.Fprintf(&b, " [%s,%s)", s.A, s.B)
	}
	if s.IO != nil {
		fmt.Fprintf(&b, " %+v", *s.IO)
	}
	if len(s.IOps) > 0 {
		fmt.Fprintf(&b, " %v", s.IOps)
	}
	if s.Sync {
		b.WriteString(" sync")
	}
	if s.Flag {
		b.WriteString(" flag")
	}
	if s.Blobs {
		b.WriteString(" blobs")
	}
	if len(s.Spans) > 0 {
		fmt.Fprintf(&b, " spans=%v", s.Spans)
	}
	return b.String()
}

// Plan is a complete DB-level case.
type Plan struct {
	Profile string     `json:"profile"`
	Opt     OptPlan    `json:"opt"`
	Steps   []Step     `json:"steps"`
	Crash   *CrashPlan `json:"crash,omitempty"`
	// Sched, if set, perturbs goroutine interleaving at FS-operation granularity.
	Sched *SchedPlan `json:"sched,omitempty"`
	// Prov, if set, makes this a provider-level schedule exploration case
	// (provsync.go); Opt and Steps are then unused.
	Prov *ProvPlan `json:"prov,omitempty"`
	// Handles, if set, makes this a blob-handle codec round-trip case (C44).
	Handles []HandlePlan `json:"handles,omitempty"`
}

// HandlePlan is one inline blob handle (sstable/blob.InlineHandle).
type HandlePlan struct {
	Ref, ValueLen, BlockID, ValueID uint32
}

func (p Plan) Summary() any {
	if p.Prov != nil {
		return map[string]any{"profile": p.Profile, "provider_plan": p.Prov.String()}
	}
	if len(p.Handles) > 0 {
		return map[string]any{"profile": p.Profile, "handles": p.Handles}
	}
	steps := make([]string, 0, len(p.Steps))
	for i, s := range p.Steps {
		if i >= 60 {
			steps = append(steps, fmt.Sprintf("... %d more steps", len(p.Steps)-i))
			break
		}
		str := s.String()
		if len(str) > 300 {
			str = str[:300] + "..."
		}
		steps = append(steps, str)
	}
	return map[string]any{"profile": p.Profile, "opt": p.Opt, "steps": steps}
}
