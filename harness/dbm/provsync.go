package dbm

// Object-provider durability under concurrent jobs (part of C10/C12).
//
// Flush, compaction and ingestion make their output tables crash-durable by
// calling objstorage.Provider.Sync() before the MANIFEST references them:
// "Sync flushes the metadata from creation or removal of objects since the
// last Sync" (objstorage.Provider doc). Several jobs do this concurrently, and
// the provider skips the directory fsync when it believes nothing changed
// since the last one. This file explores the interleavings of 2-3 concurrent
// "jobs" (create object, write, Finish, Sync, remove) against the real
// provider on a crashable MemFS with a harness-owned schedule: every job is a
// goroutine that runs only when the plan's schedule hands it the baton, and
// parks before and after every file-system operation it performs. After each
// Sync that returns nil, a crash image that keeps only synced data is taken and
// must contain every object whose Create had returned before that Sync was
// called (and none whose Remove had returned before it was called).

import (
	"context"
	"fmt"
	"runtime/debug"
	"sort"
	"strings"

	"github.com/cockroachdb/pebble/internal/base"
	"github.com/cockroachdb/pebble/objstorage"
	"github.com/cockroachdb/pebble/objstorage/objstorageprovider"
	"github.com/cockroachdb/pebble/vfs"
	"pgregory.net/rapid"
)

// ProvOp is one operation of a job: "create" (create+write+Finish object N),
// "link" (LinkOrCopyFromLocal of a durable local file as object N, the
// ingestion path), "sync" (Provider.Sync), "remove" (remove object N, created earlier by the
// same job).
type ProvOp struct {
	K string `json:"k"`
	N int    `json:"n,omitempty"`
}

// ProvPlan is a provider-level schedule exploration case.
type ProvPlan struct {
	Jobs [][]ProvOp `json:"jobs"`
	// Sched: the i-th scheduling decision resumes the (Sched[i] mod #runnable)-th
	// runnable job for one step (up to its next file-system operation boundary).
	// When exhausted, jobs run to completion in index order.
	Sched []int `json:"sched"`
	// Exhaustive enumerates every schedule (small plans only) instead of Sched.
	Exhaustive bool `json:"exh,omitempty"`
}

func genProvPlan(t *rapid.T) *ProvPlan {
	p := &ProvPlan{}
	nj := rapid.IntRange(2, 3).Draw(t, "pjobs")
	num := 0
	for j := 0; j < nj; j++ {
		var ops []ProvOp
		var mine []int
		n := rapid.IntRange(1, 3).Draw(t, fmt.Sprintf("pj%dn", j))
		for i := 0; i < n; i++ {
			switch rapid.IntRange(0, 5).Draw(t, fmt.Sprintf("pj%dk%d", j, i)) {
			case 0:
				if len(mine) > 0 {
					k := rapid.IntRange(0, len(mine)-1).Draw(t, fmt.Sprintf("pj%dr%d", j, i))
					ops = append(ops, ProvOp{K: "remove", N: mine[k]})
					mine = append(mine[:k], mine[k+1:]...)
					ops = append(ops, ProvOp{K: "sync"})
					continue
				}
				fallthrough
			default:
				num++
				mine = append(mine, num)
				kind := "create"
				if rapid.IntRange(0, 2).Draw(t, fmt.Sprintf("pj%dl%d", j, i)) == 0 {
					kind = "link"
				}
				ops = append(ops, ProvOp{K: kind, N: num})
				if rapid.IntRange(0, 3).Draw(t, fmt.Sprintf("pj%ds%d", j, i)) > 0 {
					ops = append(ops, ProvOp{K: "sync"})
				}
			}
		}
		if ops[len(ops)-1].K != "sync" {
			ops = append(ops, ProvOp{K: "sync"})
		}
		p.Jobs = append(p.Jobs, ops)
	}
	total := 0
	for _, j := range p.Jobs {
		total += len(j)
	}
	if nj == 2 && total <= 4 && rapid.IntRange(0, 2).Draw(t, "pexh") == 0 {
		p.Exhaustive = true
		return p
	}
	ns := rapid.IntRange(0, 60).Draw(t, "pnsched")
	for i := 0; i < ns; i++ {
		// runs of the same job are likelier than uniform switching
		if i > 0 && rapid.IntRange(0, 2).Draw(t, fmt.Sprintf("psame%d", i)) > 0 {
			p.Sched = append(p.Sched, p.Sched[i-1])
		} else {
			p.Sched = append(p.Sched, rapid.IntRange(0, 5).Draw(t, fmt.Sprintf("ps%d", i)))
		}
	}
	return p
}

// ---- cooperative scheduler (one managed goroutine runs at a time)

type pcoop struct {
	resume []chan struct{}
	ev     chan struct{}
	cur    int
	done   []bool
	panics []string
	steps  int
}

func newPcoop(n int) *pcoop {
	c := &pcoop{ev: make(chan struct{}), cur: -1, done: make([]bool, n), panics: make([]string, n)}
	for i := 0; i < n; i++ {
		c.resume = append(c.resume, make(chan struct{}))
	}
	return c
}

func (c *pcoop) yield() {
	i := c.cur
	if i < 0 {
		return
	}
	c.ev <- struct{}{}
	<-c.resume[i]
	c.cur = i
}

func (c *pcoop) spawn(i int, body func()) {
	go func() {
		<-c.resume[i]
		c.cur = i
		defer func() {
			if r := recover(); r != nil {
				c.panics[i] = fmt.Sprintf("%v\n%s", r, debug.Stack())
			}
			c.done[i] = true
			c.ev <- struct{}{}
		}()
		body()
	}()
}

func (c *pcoop) step(i int) {
	c.steps++
	c.resume[i] <- struct{}{}
	<-c.ev
	c.cur = -1
}

func (c *pcoop) runnable() []int {
	var l []int
	for i, d := range c.done {
		if !d {
			l = append(l, i)
		}
	}
	return l
}

// ---- gate FS: parks the calling managed goroutine after every mutating
// operation (the state between two operations is what an interleaving can
// observe; the provider holds no lock across a file-system operation)

type gateFS struct {
	vfs.FS
	c *pcoop
}

func (g *gateFS) Create(name string, cat vfs.DiskWriteCategory) (vfs.File, error) {
	f, err := g.FS.Create(name, cat)
	g.c.yield()
	if err != nil {
		return nil, err
	}
	return &gateFile{File: f, g: g}, nil
}

func (g *gateFS) OpenDir(name string) (vfs.File, error) {
	f, err := g.FS.OpenDir(name)
	if err != nil {
		return nil, err
	}
	return &gateFile{File: f, g: g}, nil
}

// Link parks before and after: a provider that registers an object before its
// directory entry exists leaves a window on this side of the operation.
func (g *gateFS) Link(oldname, newname string) error {
	g.c.yield()
	err := g.FS.Link(oldname, newname)
	g.c.yield()
	return err
}

func (g *gateFS) Remove(name string) error {
	err := g.FS.Remove(name)
	g.c.yield()
	return err
}

type gateFile struct {
	vfs.File
	g *gateFS
}

func (f *gateFile) Sync() error {
	err := f.File.Sync()
	f.g.c.yield()
	return err
}

func (f *gateFile) SyncData() error {
	err := f.File.SyncData()
	f.g.c.yield()
	return err
}

func (f *gateFile) SyncTo(n int64) (bool, error) {
	full, err := f.File.SyncTo(n)
	f.g.c.yield()
	return full, err
}

func (f *gateFile) Close() error {
	err := f.File.Close()
	f.g.c.yield()
	return err
}

// ---- execution

type provRun struct {
	p     *ProvPlan
	mem   *vfs.MemFS
	prov  objstorage.Provider
	c     *pcoop
	clock int
	// event times
	createdAt map[int]int // object -> time Provider.Create returned
	removedAt map[int]int // object -> time Provider.Remove returned
	remCalled map[int]int // object -> time Provider.Remove was called
	err       error
	syncs     int
	overlap   int // syncs that completed while another job was between its own calls
	inflight  []int
	// interleaved: Syncs during which another job completed a Create or Remove call
	interleaved int
	gfs         *gateFS
	links       int
}

func (r *provRun) tick() int { r.clock++; return r.clock }

func (r *provRun) job(j int) {
	ctx := context.Background()
	for _, op := range r.p.Jobs[j] {
		if r.err != nil {
			return
		}
		switch op.K {
		case "create":
			w, _, err := r.prov.Create(ctx, base.FileTypeTable, base.DiskFileNum(op.N), objstorage.CreateOptions{})
			if err != nil {
				r.err = fmt.Errorf("job %d: Create(%d): unexpected error %v", j, op.N, err)
				return
			}
			r.createdAt[op.N] = r.tick()
			if err := w.Write([]byte(fmt.Sprintf("object-%06d-payload", op.N))); err != nil {
				r.err = fmt.Errorf("job %d: Write(%d): unexpected error %v", j, op.N, err)
				return
			}
			if err := w.Finish(); err != nil {
				r.err = fmt.Errorf("job %d: Finish(%d): unexpected error %v", j, op.N, err)
				return
			}
		case "link":
			// the ingestion path: the object is a hard link to a local file
			src := fmt.Sprintf("ext/src-%06d", op.N)
			if _, err := r.prov.LinkOrCopyFromLocal(ctx, r.gfs, src, base.FileTypeTable, base.DiskFileNum(op.N), objstorage.CreateOptions{}); err != nil {
				r.err = fmt.Errorf("job %d: LinkOrCopyFromLocal(%d): unexpected error %v", j, op.N, err)
				return
			}
			r.createdAt[op.N] = r.tick()
			r.links++
		case "remove":
			r.remCalled[op.N] = r.tick()
			if err := r.prov.Remove(base.FileTypeTable, base.DiskFileNum(op.N)); err != nil {
				r.err = fmt.Errorf("job %d: Remove(%d): unexpected error %v", j, op.N, err)
				return
			}
			r.removedAt[op.N] = r.tick()
		case "sync":
			called := r.tick()
			for k, v := range r.inflight {
				if k != j && v > 0 {
					r.overlap++
					break
				}
			}
			r.inflight[j]++
			err := r.prov.Sync()
			r.inflight[j]--
			if err != nil {
				r.err = fmt.Errorf("job %d: Sync: unexpected error %v", j, err)
				return
			}
			r.syncs++
			if r.clock != called {
				r.interleaved++ // another job created/removed an object while this Sync was in progress
			}
			// Everything else is parked: the crash image is exact.
			img := r.mem.VerifCrashClone(func(string, int) bool { return false })
			names, lerr := img.List("")
			if lerr != nil {
				r.err = fmt.Errorf("job %d: listing the crash image: %v", j, lerr)
				return
			}
			have := map[int]bool{}
			for _, n := range names {
				if ft, num, ok := base.ParseFilename(img, n); ok && ft == base.FileTypeTable {
					have[int(num)] = true
				}
			}
			var objs []int
			for o := range r.createdAt {
				objs = append(objs, o)
			}
			sort.Ints(objs)
			for _, o := range objs {
				if r.createdAt[o] < called {
					if rc, removing := r.remCalled[o]; removing {
						if ra, removed := r.removedAt[o]; removed && ra < called && have[o] {
							r.err = fmt.Errorf("job %d: Sync returned nil, but object %06d, whose Remove had returned before this Sync was called, is still present after a crash that keeps only synced data (dir %v)", j, o, names)
							return
						}
						_ = rc
						continue // removal in flight or done: presence is not determined by this Sync
					}
					if !have[o] {
						r.err = fmt.Errorf("job %d: Sync returned nil, but object %06d, whose Create had returned before this Sync was called, does not survive a crash that keeps only synced data (dir %v)", j, o, names)
						return
					}
				}
			}
		}
	}
}

func runProvSchedule(p *ProvPlan, sched []int, forced []int) (*provRun, []int, error) {
	mem := vfs.NewCrashableMem()
	c := newPcoop(len(p.Jobs))
	// sources of "link" operations, durable
	if err := mem.MkdirAll("ext", 0o755); err != nil {
		return nil, nil, err
	}
	for _, ops := range p.Jobs {
		for _, o := range ops {
			if o.K == "link" {
				f, err := mem.Create(fmt.Sprintf("ext/src-%06d", o.N), vfs.WriteCategoryUnspecified)
				if err == nil {
					_, err = f.Write([]byte(fmt.Sprintf("object-%06d-payload", o.N)))
				}
				if err == nil {
					err = f.Sync()
				}
				if err == nil {
					err = f.Close()
				}
				if err != nil {
					return nil, nil, err
				}
			}
		}
	}
	for _, d := range []string{"ext", ""} {
		if df, err := mem.OpenDir(d); err == nil {
			_ = df.Sync()
			_ = df.Close()
		}
	}
	gfs := &gateFS{FS: mem, c: c}
	st := objstorageprovider.DefaultSettings(gfs, "")
	st.Logger = base.NoopLoggerAndTracer{}
	prov, err := objstorageprovider.Open(st)
	if err != nil {
		return nil, nil, fmt.Errorf("provider open: %v", err)
	}
	r := &provRun{gfs: gfs, p: p, mem: mem, prov: prov, c: c, createdAt: map[int]int{}, removedAt: map[int]int{}, remCalled: map[int]int{}, inflight: make([]int, len(p.Jobs))}
	for j := range p.Jobs {
		j := j
		c.spawn(j, func() { r.job(j) })
	}
	var trace []int // number of runnable jobs at each decision (for exhaustive enumeration)
	for i := 0; ; i++ {
		run := c.runnable()
		if len(run) == 0 {
			break
		}
		if c.steps > 100000 {
			return r, trace, fmt.Errorf("no progress after 100000 scheduling steps")
		}
		pick := 0
		switch {
		case forced != nil:
			if i < len(forced) {
				pick = forced[i]
			}
		case i < len(sched):
			pick = sched[i] % len(run)
		}
		trace = append(trace, len(run))
		c.step(run[pick])
	}
	for j, pn := range c.panics {
		if pn != "" && r.err == nil {
			r.err = fmt.Errorf("job %d panicked: %s", j, pn)
		}
	}
	cerr := prov.Close()
	if r.err == nil && cerr != nil {
		r.err = fmt.Errorf("provider close: %v", cerr)
	}
	return r, trace, r.err
}

// execProvPlan runs one provider plan; returns counters and a violation.
func execProvPlan(p *ProvPlan) (map[string]int, error) {
	C := map[string]int{}
	note := func(r *provRun) {
		C["prov-schedules"]++
		C["prov-syncs"] += r.syncs
		C["prov-syncs-overlapping-another-sync"] += r.overlap
		C["prov-syncs-interleaved-with-create-or-remove"] += r.interleaved
		C["prov-sched-steps"] += r.c.steps
		C["prov-links"] += r.links
	}
	if !p.Exhaustive {
		r, _, err := runProvSchedule(p, p.Sched, nil)
		if r != nil {
			note(r)
		}
		return C, err
	}
	// stateless DFS over all schedules
	forced := []int{}
	for n := 0; n < 200000; n++ {
		r, trace, err := runProvSchedule(p, nil, forced)
		if r != nil {
			note(r)
		}
		if err != nil {
			return C, fmt.Errorf("schedule %v: %v", forced, err)
		}
		// next schedule in lexicographic order
		full := make([]int, len(trace))
		copy(full, forced)
		i := len(full) - 1
		for ; i >= 0; i-- {
			if full[i]+1 < trace[i] {
				full[i]++
				full = full[:i+1]
				break
			}
		}
		if i < 0 {
			C["prov-exhaustive-plans"]++
			return C, nil
		}
		forced = full
	}
	return C, nil
}

func (p *ProvPlan) String() string {
	var b strings.Builder
	for j, ops := range p.Jobs {
		fmt.Fprintf(&b, "job%d:", j)
		for _, o := range ops {
			if o.N > 0 {
				fmt.Fprintf(&b, " %s(%d)", o.K, o.N)
			} else {
				fmt.Fprintf(&b, " %s", o.K)
			}
		}
		b.WriteString("; ")
	}
	if p.Exhaustive {
		b.WriteString("all schedules")
	} else {
		fmt.Fprintf(&b, "sched=%v", p.Sched)
	}
	return b.String()
}
