package dbm

import (
	"fmt"
	"sort"
	"testing/synctest"
	"time"

	"github.com/cockroachdb/pebble/verifharness/evid"
	"github.com/cockroachdb/pebble/vfs"
	"github.com/cockroachdb/pebble/vfs/errorfs"
)

// InBubble is set by checks that run inside a process-wide synctest bubble
// (evid.Spec.Bubble); "wait" steps then use synctest.Wait, otherwise they poll
// the DB's metrics until no flush or compaction is in progress.
var InBubble bool

// DebugTrace, if set, collects the event log of the next RunPlan (debugging aid).
var DebugTrace *[]string

// Result is what a plan execution reports besides a violation.
type Result struct {
	C map[string]int
	L map[string]bool
	// Ev is the event log of the DB.
	Ev *Events
}

// RunPlan executes a plan inside a synctest bubble on a fresh MemFS. finish is
// called (inside the bubble) after the last step and before Close; it may
// perform extra checks.
func RunPlan(p Plan, finish func(r *Runner) error) (res Result, err error) {
	body := func() {
		var fs vfs.FS = vfs.NewMem()
		var cr *crasher
		if p.Crash != nil {
			mem := vfs.NewCrashableMem()
			cr = &crasher{cp: p.Crash, mem: mem}
			fs = errorfs.Wrap(mem, errorfs.InjectorFunc(cr.inject))
		}
		var sfs *schedFS
		if p.Sched != nil {
			sfs = newSchedFS(fs, p.Sched)
			fs = sfs
		}
		r := NewRunner(&p, fs)
		r.Ev.Trace = DebugTrace
		foregroundGID.Store(curGoroutineID())
		if sfs != nil {
			sfs.stepNow = r.stepA.Load
			r.sfs = sfs
			if r.Ev.Trace != nil {
				sfs.trace = func(f string, a ...interface{}) { r.Ev.trace(f, a...) }
			}
			defer sfs.on.Store(false)
			defer func() { r.C["sched-holds"] += int(sfs.holds.Load()) }()
		}
		if sfs != nil {
			defer func() { r.C["sched-pauses"] += int(sfs.cnt.Load()) }()
		}
		if cr != nil {
			cr.r = r
			r.crash = cr
		}
		if InBubble {
			r.Wait = synctest.Wait
		} else {
			r.Wait = r.pollQuiescent
		}
		res = Result{C: r.C, L: r.L, Ev: r.Ev}
		if err = r.Open(); err != nil {
			return
		}
		defer func() {
			if r.DB != nil {
				// best effort close so that the bubble can end
				r.closeHandles()
				r.DB.Close()
				r.DB = nil
			}
		}()
		if cr != nil {
			defer cr.abandon()
		}
		for i := range p.Steps {
			if err = r.Step(i); err != nil {
				return
			}
			if cr != nil {
				if err = cr.failed(); err != nil {
					return
				}
				cr.kick()
				if cr.queued() > 150 {
					cr.waitIdle() // bound the memory held by queued images
				}
			}
		}
		if cr != nil {
			// a final image of the quiescent store, then stop taking images.
			r.Wait()
			cr.snap(cr.n.Load(), "end of plan", "end")
			cr.off.Store(true)
			if err = cr.checkImages(); err != nil {
				return
			}
			for k, v := range cr.classes {
				r.C["crash-class-"+k] += v
			}
		}
		if err = r.FinalCheck(); err != nil {
			return
		}
		if finish != nil {
			if err = finish(r); err != nil {
				return
			}
		}
		if err = r.Close(); err != nil {
			return
		}
	}
	body()
	return
}

// pollQuiescent waits (bounded) until no flush or compaction is running or
// pending. It only shapes exploration; no verdict depends on it.
func (r *Runner) pollQuiescent() {
	if r.DB == nil {
		return
	}
	for i := 0; i < 2000; i++ {
		m := r.DB.Metrics()
		if m.Compact.NumInProgress == 0 && m.Flush.NumInProgress == 0 && m.MemTable.ZombieCount == 0 {
			if i > 0 || true {
				return
			}
		}
		time.Sleep(200 * time.Microsecond)
	}
}

// Outcome converts a result into evidence labels.
func (res Result) Outcome() evid.Outcome {
	var out evid.Outcome
	out.Counters = map[string]int{}
	for k, v := range res.C {
		out.Counters[k] = v
	}
	var ls []string
	for k := range res.L {
		ls = append(ls, k)
	}
	if res.Ev != nil {
		res.Ev.mu.Lock()
		if res.Ev.Flushes > 0 {
			ls = append(ls, "flushed")
		}
		for k, v := range res.Ev.Compactions {
			if v > 0 {
				ls = append(ls, "compaction="+k)
			}
			out.Counters["compactions"] += v
		}
		if res.Ev.FlushableIng > 0 {
			ls = append(ls, "flushable-ingest")
		}
		if res.Ev.TablesDeleted > 0 {
			ls = append(ls, "tables-deleted")
		}
		if res.Ev.ManifestNew > 1 {
			ls = append(ls, "manifest-rotated")
		}
		out.Counters["flushes"] += res.Ev.Flushes
		res.Ev.mu.Unlock()
	}
	sort.Strings(ls)
	out.Labels = ls
	return out
}

func (res Result) has(l string) bool {
	for _, x := range res.Outcome().Labels {
		if x == l {
			return true
		}
	}
	return false
}

var _ = fmt.Sprint
