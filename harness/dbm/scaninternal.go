package dbm

// C45: ScanInternal output, written into an empty DB, reproduces the visible
// state of the source inside the scanned span.

import (
	"context"
	"fmt"
	"strings"

	"github.com/cockroachdb/pebble"
	"github.com/cockroachdb/pebble/internal/base"
	"github.com/cockroachdb/pebble/internal/keyspan"
	"github.com/cockroachdb/pebble/objstorage/objstorageprovider"
	"github.com/cockroachdb/pebble/rangekey"
	"github.com/cockroachdb/pebble/sstable"
	"github.com/cockroachdb/pebble/vfs"
	"pgregory.net/rapid"
)

func init() {
	extraSteps["scaninternal"] = stepScanInternal
	extraGen["scaninternal"] = func(g *gen, label string, s *Step) bool {
		var ws []wchoice
		ws = append(ws, wchoice{"db", 5})
		if len(g.snaps) > 0 {
			ws = append(ws, wchoice{"snap", 4})
		}
		if len(g.efos) > 0 {
			ws = append(ws, wchoice{"efos", 3})
		}
		s.On = pick(g.t, label+"on", ws)
		switch s.On {
		case "snap":
			s.ID2 = rapid.SampledFrom(g.snaps).Draw(g.t, label+"id")
		case "efos":
			s.ID2 = rapid.SampledFrom(g.efos).Draw(g.t, label+"id")
		}
		if s.On == "efos" {
			rg := rapid.SampledFrom(g.efosRg[s.ID2]).Draw(g.t, label+"rg")
			ia, ib := prefixIndex(rg[0]), prefixIndex(rg[1])
			a := rapid.IntRange(ia, ib-1).Draw(g.t, label+"a")
			b := rapid.IntRange(a+1, ib).Draw(g.t, label+"b")
			s.A, s.B = Prefixes[a], Prefixes[b]
		} else {
			s.A, s.B = g.span(label + "sp")
			if rapid.IntRange(0, 3).Draw(g.t, label+"whole") == 0 {
				s.A, s.B = Prefixes[0], Prefixes[len(Prefixes)-1]
			}
		}
		return true
	}
}

type siPoint struct {
	key  string
	kind base.InternalKeyKind
	seq  base.SeqNum
	val  []byte
}

type siSpan struct {
	start, end string
	seq        base.SeqNum
	keys       []keyspan.Key
}

// restrictState returns the part of st inside [a,b) (a, b bare universe prefixes).
func restrictState(st *State, a, b string) *State {
	n := NewState()
	for k, v := range st.Points {
		if inSpan(k, a, b) {
			n.Points[k] = v
		}
	}
	for i := range st.RK {
		if cmpKey(Prefixes[i], a) >= 0 && cmpKey(Prefixes[i+1], b) <= 0 && len(st.RK[i]) > 0 {
			n.RK[i] = st.RK[i]
		}
	}
	return n
}

func stepScanInternal(r *Runner, s Step) error {
	ctx := context.Background()
	if s.A == "" || s.B == "" || cmpKey(s.A, s.B) >= 0 || prefixIndex(s.A) < 0 || prefixIndex(s.B) < 0 {
		return nil
	}
	rd := r.reader(s.On, s.ID2)
	if rd == nil || rd.batch != nil {
		return nil
	}
	if !rd.readable(IterOpts{Lower: s.A, Upper: s.B}) {
		return nil
	}
	var pts []siPoint
	var rds, rks []siSpan
	opts := pebble.ScanInternalOptions{
		IterOptions: pebble.IterOptions{KeyTypes: pebble.IterKeyTypePointsAndRanges, LowerBound: []byte(s.A), UpperBound: []byte(s.B)},
		VisitPointKey: func(key *pebble.InternalKey, value pebble.LazyValue, _ pebble.IteratorLevel) error {
			v, _, err := value.Value(nil)
			if err != nil {
				return fmt.Errorf("value of %s: %v", key.UserKey, err)
			}
			pts = append(pts, siPoint{key: string(key.UserKey), kind: key.Kind(), seq: key.SeqNum(), val: append([]byte(nil), v...)})
			return nil
		},
		VisitRangeDel: func(start, end []byte, seqNum base.SeqNum) error {
			rds = append(rds, siSpan{start: string(start), end: string(end), seq: seqNum})
			return nil
		},
		VisitRangeKey: func(start, end []byte, keys []rangekey.Key) error {
			sp := siSpan{start: string(start), end: string(end)}
			for _, k := range keys {
				var c keyspan.Key
				c.CopyFrom(k)
				sp.keys = append(sp.keys, c)
			}
			rks = append(rks, sp)
			return nil
		},
	}
	var err error
	switch s.On {
	case "", "db":
		err = r.DB.ScanInternal(ctx, opts)
	case "snap":
		err = r.snaps[s.ID2].s.ScanInternal(ctx, opts)
	case "efos":
		err = r.efos[s.ID2].s.ScanInternal(ctx, opts)
	default:
		return nil
	}
	what := fmt.Sprintf("%s.ScanInternal[%s,%s)", rd.what, s.A, s.B)
	if err != nil {
		return fmt.Errorf("%s: unexpected error: %v", what, err)
	}
	r.noteRead(rd)

	// ---- direct guarantees of the documentation
	seen := map[string]bool{}
	for i, p := range pts {
		if !inSpan(p.key, s.A, s.B) {
			return fmt.Errorf("%s: point key %s outside the scanned span", what, p.key)
		}
		if seen[p.key] {
			return fmt.Errorf("%s: more than one internal key returned for user key %s", what, p.key)
		}
		seen[p.key] = true
		if i > 0 && cmpKey(pts[i-1].key, p.key) >= 0 {
			return fmt.Errorf("%s: point keys not in increasing order: %s then %s", what, pts[i-1].key, p.key)
		}
		for _, d := range rds {
			if inSpan(p.key, d.start, d.end) && p.seq < d.seq {
				return fmt.Errorf("%s: point %s#%d is covered by the returned range deletion [%s,%s)#%d but was returned", what, p.key, p.seq, d.start, d.end, d.seq)
			}
		}
	}
	for _, l := range [][]siSpan{rds, rks} {
		for _, d := range l {
			if cmpKey(d.start, s.A) < 0 || cmpKey(d.end, s.B) > 0 || cmpKey(d.start, d.end) >= 0 {
				return fmt.Errorf("%s: span [%s,%s) is not truncated to the scan bounds", what, d.start, d.end)
			}
		}
	}

	// ---- replay into an empty DB
	want := restrictState(rd.st, s.A, s.B)
	got := NewState()
	if len(pts)+len(rds)+len(rks) > 0 {
		op := r.Plan.Opt
		op.FMV = int(r.fmv())
		op.WALDir = false
		op.CheckLevels = false
		// (A) through the write API. In the scan output every key has lost its
		// sequence number (it is "the state at one point"): at equal sequence
		// numbers a range deletion does not delete a point, and RANGEKEYSET
		// shadows RANGEKEYUNSET shadows RANGEKEYDELETE (internal key ordering by
		// kind). Committing one batch assigns increasing sequence numbers, so the
		// same precedence is obtained by writing: range deletions, points,
		// range-key deletes, unsets, sets.
		{
			mem := vfs.NewMem()
			dopts := BuildOptions(op, mem, nil, &recLogger{})
			ddb, err := pebble.Open("dest", dopts)
			if err != nil {
				return fmt.Errorf("%s: opening the destination DB: %v", what, err)
			}
			b := ddb.NewBatch()
			for _, d := range rds {
				b.DeleteRange([]byte(d.start), []byte(d.end), nil)
			}
			for _, p := range pts {
				switch p.kind {
				case base.InternalKeyKindSet, base.InternalKeyKindSetWithDelete:
					b.Set([]byte(p.key), p.val, nil)
				case base.InternalKeyKindDelete, base.InternalKeyKindDeleteSized:
					b.Delete([]byte(p.key), nil)
				default:
					ddb.Close()
					return fmt.Errorf("%s: unexpected kind %s for point %s", what, p.kind, p.key)
				}
			}
			for _, kind := range []base.InternalKeyKind{base.InternalKeyKindRangeKeyDelete, base.InternalKeyKindRangeKeyUnset, base.InternalKeyKindRangeKeySet} {
				for _, sp := range rks {
					for _, k := range sp.keys {
						if k.Kind() != kind {
							continue
						}
						switch kind {
						case base.InternalKeyKindRangeKeyDelete:
							b.RangeKeyDelete([]byte(sp.start), []byte(sp.end), nil)
						case base.InternalKeyKindRangeKeyUnset:
							b.RangeKeyUnset([]byte(sp.start), []byte(sp.end), k.Suffix, nil)
						case base.InternalKeyKindRangeKeySet:
							b.RangeKeySet([]byte(sp.start), []byte(sp.end), k.Suffix, k.Value, nil)
						}
					}
				}
			}
			if err := b.Commit(pebble.NoSync); err != nil {
				ddb.Close()
				return fmt.Errorf("%s: committing the replayed scan: %v", what, err)
			}
			got, err = DumpState(ddb)
			cerr := ddb.Close()
			if err != nil {
				return fmt.Errorf("%s: reading the destination DB: %v", what, err)
			}
			if cerr != nil {
				return fmt.Errorf("%s: closing the destination DB: %v", what, cerr)
			}
		}
		// (B) as an sstable (sequence number 0, same kinds) that is ingested, the
		// way replication uses ScanInternal. Ingestion validates that the first
		// range key of a table starts at an unsuffixed key; a scan may legally
		// begin with a fragment cut at a table boundary, which is then counted,
		// not judged.
		{
			mem := vfs.NewMem()
			dopts := BuildOptions(op, mem, nil, &recLogger{})
			f, err := mem.Create("scan.sst", vfs.WriteCategoryUnspecified)
			if err != nil {
				return err
			}
			w := sstable.NewWriter(objstorageprovider.NewFileWritable(f), dopts.MakeWriterOptions(0, r.fmv().MaxTableFormat()))
			for _, p := range pts {
				if err := w.Raw().Add(base.MakeInternalKey([]byte(p.key), 0, p.kind), p.val, false, base.KVMeta{}); err != nil {
					return fmt.Errorf("%s: replay writer rejects point %s (%s): %v", what, p.key, p.kind, err)
				}
			}
			for _, d := range rds {
				if err := w.DeleteRange([]byte(d.start), []byte(d.end)); err != nil {
					return fmt.Errorf("%s: replay writer rejects range deletion [%s,%s): %v", what, d.start, d.end, err)
				}
			}
			for _, k := range rks {
				if err := w.Raw().EncodeSpan(keyspan.Span{Start: []byte(k.start), End: []byte(k.end), Keys: k.keys}); err != nil {
					return fmt.Errorf("%s: replay writer rejects range key span [%s,%s): %v", what, k.start, k.end, err)
				}
			}
			if err := w.Close(); err != nil {
				return fmt.Errorf("%s: replay writer close: %v", what, err)
			}
			ddb, err := pebble.Open("dest", dopts)
			if err != nil {
				return fmt.Errorf("%s: opening the destination DB: %v", what, err)
			}
			if err := ddb.Ingest(ctx, []string{"scan.sst"}); err != nil {
				ddb.Close()
				if strings.Contains(err.Error(), "suffixed range key") || strings.Contains(err.Error(), "suffixed largest range key") {
					r.C["scaninternal-ingest-replay-rejected-suffixed-rangekey-bound"]++
				} else {
					return fmt.Errorf("%s: ingesting the replayed scan: %v", what, err)
				}
			} else {
				got2, err := DumpState(ddb)
				cerr := ddb.Close()
				if err != nil {
					return fmt.Errorf("%s: reading the destination DB (ingest replay): %v", what, err)
				}
				if cerr != nil {
					return fmt.Errorf("%s: closing the destination DB (ingest replay): %v", what, cerr)
				}
				if !got2.Equal(want) {
					return fmt.Errorf("%s: ingesting the scan output (%d points, %d range deletions, %d range-key spans) as an sstable into an empty DB gives a different visible state than the source at the scan's version:%s",
						what, len(pts), len(rds), len(rks), describeDiff(got2, []*State{want}))
				}
				r.C["scaninternal-ingest-replays"]++
			}
		}
	}
	if !got.Equal(want) {
		return fmt.Errorf("%s: replaying the scan (%d points, %d range deletions, %d range-key spans) into an empty DB gives a different visible state than the source at the scan's version:%s",
			what, len(pts), len(rds), len(rks), describeDiff(got, []*State{want}))
	}
	r.C["scaninternal"]++
	tomb, merge := false, false
	for _, p := range pts {
		switch p.kind {
		case base.InternalKeyKindDelete, base.InternalKeyKindSingleDelete, base.InternalKeyKindDeleteSized:
			tomb = true
		case base.InternalKeyKindMerge:
			merge = true
		}
	}
	if tomb {
		r.C["scaninternal-with-tombstone"]++
	}
	if merge {
		r.C["scaninternal-with-merge"]++
	}
	if len(rds) > 0 {
		r.C["scaninternal-with-rangedel"]++
	}
	if len(rks) > 0 {
		r.C["scaninternal-with-rangekey"]++
	}
	if (tomb || merge || len(rds) > 0) && len(rks) > 0 && len(want.Points) > 0 {
		r.C["scaninternal-rich"]++
	}
	if s.On == "snap" || s.On == "efos" {
		r.C["scaninternal-on-"+s.On]++
	}
	return nil
}
