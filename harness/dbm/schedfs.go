package dbm

// schedFS perturbs the interleaving of Pebble's goroutines at file-system
// operation granularity.
//
// After selected mutating FS operations have COMPLETED (file creation, sync,
// directory sync, rename, remove, link, close) the calling goroutine yields the
// processor a pseudo-randomly chosen number of times (runtime.Gosched in a
// loop: a pause of roughly 1-500 microseconds during which the other
// goroutines keep running). Two goroutines that pause at different points for
// different durations are interleaved in an order the Go scheduler would
// practically never produce on an in-memory file system, where every
// operation takes about a microsecond (e.g. job A is parked between finishing
// a directory fsync and recording it, while job B creates a file and reaches
// its own sync decision).
//
// A virtual-time sleep (testing/synctest) would be a stronger "let everybody
// else run as far as they can", but Pebble performs some file operations while
// holding a sync.Mutex, and a goroutine blocked on a mutex is not durably
// blocked: the bubble's clock would never advance and the case would hang.
//
// The perturbation only changes WHICH legal schedule is explored; no verdict
// depends on it. It is a pure function of (salt, operation kind, per-kind
// counter) so a plan explores similar schedules when replayed, but concurrent
// counters make it not fully reproducible.

import (
	"hash/fnv"
	"runtime"
	"strings"
	"sync/atomic"

	"github.com/cockroachdb/pebble/vfs"
)

// SchedPlan configures the perturbation.
type SchedPlan struct {
	Salt int `json:"salt"`
	// Pct is the percentage of eligible operations followed by a pause.
	Pct int `json:"pct"`
	// Max is the maximal pause in units of 16 processor yields.
	Max int `json:"max"`
	// HoldManifest > 0: a MANIFEST sync issued by a background goroutine is held
	// back until the foreground has executed that many further plan steps (or a
	// bounded number of yields has elapsed, e.g. because the foreground itself
	// waits for that version edit). This stretches the window in which a version
	// edit has been written but is not yet durable while foreground operations
	// (commits, WAL rotations, reader closes, obsolete-file passes) continue.
	HoldManifest int `json:"holdman,omitempty"`
	// HoldCreate ("sst", "blob", "any") with HoldCreateK > 0: a background job
	// (flush, compaction, blob-file rewrite) that has just created an output
	// file of that class is held back the same way for HoldCreateK foreground
	// steps: its inputs are chosen, nothing is installed yet, and the foreground
	// goes on (excises, ingestions, flushes, reader churn) - the cancellation
	// and conflict paths of the jobs. At most 8 such holds per case.
	HoldCreate  string `json:"holdcreate,omitempty"`
	HoldCreateK int    `json:"holdcreatek,omitempty"`
}

type schedFS struct {
	vfs.FS
	// stepNow returns the index of the plan step the foreground is executing;
	// fg is the goroutine id of the foreground (never held).
	stepNow     func() int64
	trace       func(format string, args ...interface{})
	holds       atomic.Int64
	holding     atomic.Int64 // goroutines currently parked in a hold
	createHolds atomic.Int64
	ops         atomic.Int64 // completed mutating operations (all goroutines)
	sp          *SchedPlan
	n           atomic.Int64
	cnt         atomic.Int64 // pauses taken
	on          atomic.Bool
}

func newSchedFS(inner vfs.FS, sp *SchedPlan) *schedFS {
	s := &schedFS{FS: inner, sp: sp}
	s.on.Store(true)
	return s
}

func (s *schedFS) after(kind, path string) {
	s.ops.Add(1)
	if !s.on.Load() || s.sp.Pct <= 0 {
		return
	}
	// tables being prepared for ingestion by the harness itself are not interesting
	if strings.HasPrefix(path, "ext/") {
		return
	}
	i := s.n.Add(1)
	h := fnv.New64a()
	var b [24]byte
	for j := 0; j < 8; j++ {
		b[j] = byte(uint64(s.sp.Salt) >> (8 * j))
		b[8+j] = byte(uint64(i) >> (8 * j))
	}
	copy(b[16:], kind)
	h.Write(b[:])
	v := h.Sum64()
	pct := s.sp.Pct
	if kind == "dirsync" || kind == "create" || kind == "rename" {
		// the operations around which Pebble's durability protocols are built
		// (create file ... sync directory ... record that it is synced)
		pct *= 3
	}
	if int(v%100) >= pct {
		return
	}
	max := s.sp.Max
	if max < 1 {
		max = 1
	}
	n := 16 * (1 + int((v>>8)%uint64(max)))
	s.cnt.Add(1)
	for j := 0; j < n; j++ {
		runtime.Gosched()
	}
}

func (s *schedFS) Create(name string, c vfs.DiskWriteCategory) (vfs.File, error) {
	f, err := s.FS.Create(name, c)
	if err != nil {
		return nil, err
	}
	s.after("create", name)
	s.holdCreate(name)
	return &schedFile{File: f, s: s, path: name}, nil
}

func (s *schedFS) ReuseForWrite(oldname, newname string, c vfs.DiskWriteCategory) (vfs.File, error) {
	f, err := s.FS.ReuseForWrite(oldname, newname, c)
	if err != nil {
		return nil, err
	}
	s.after("reuse", newname)
	return &schedFile{File: f, s: s, path: newname}, nil
}

func (s *schedFS) OpenDir(name string) (vfs.File, error) {
	f, err := s.FS.OpenDir(name)
	if err != nil {
		return nil, err
	}
	return &schedFile{File: f, s: s, path: name, dir: true}, nil
}

func (s *schedFS) Link(oldname, newname string) error {
	err := s.FS.Link(oldname, newname)
	s.after("link", newname)
	return err
}

func (s *schedFS) Remove(name string) error {
	err := s.FS.Remove(name)
	s.after("remove", name)
	return err
}

func (s *schedFS) Rename(oldname, newname string) error {
	err := s.FS.Rename(oldname, newname)
	s.after("rename", newname)
	return err
}

// waitHold lets the foreground yield (bounded) until some background goroutine
// is parked in a MANIFEST-sync hold. Only shapes the schedule.
func (s *schedFS) waitHold() bool {
	if s == nil || (s.sp.HoldManifest <= 0 && s.sp.HoldCreate == "") {
		return false
	}
	for i := 0; i < 200000; i++ {
		if s.holding.Load() > 0 {
			return true
		}
		runtime.Gosched()
	}
	return false
}

// DebugHoldStacks dumps all goroutines when a hold ends because nothing else
// made progress (debugging aid).
var DebugHoldStacks bool

type schedFile struct {
	vfs.File
	s    *schedFS
	path string
	dir  bool
}

// holdManifestSync implements SchedPlan.HoldManifest (called before the sync).
func (f *schedFile) holdManifestSync() {
	s := f.s
	if s.sp.HoldManifest <= 0 || f.dir || !strings.Contains(f.path, "MANIFEST") {
		return
	}
	s.hold("manifest sync", s.sp.HoldManifest)
}

// holdCreate implements SchedPlan.HoldCreate (called after the creation).
func (s *schedFS) holdCreate(path string) {
	if s.sp.HoldCreate == "" || s.sp.HoldCreateK <= 0 || strings.HasPrefix(path, "ext/") {
		return
	}
	cls := ""
	switch {
	case strings.HasSuffix(path, ".sst"):
		cls = "sst"
	case strings.HasSuffix(path, ".blob"):
		cls = "blob"
	default:
		return
	}
	if s.sp.HoldCreate != "any" && s.sp.HoldCreate != cls {
		return
	}
	if s.createHolds.Load() >= 8 {
		return // bounded per case
	}
	if s.hold("creation of "+cls+" output", s.sp.HoldCreateK) {
		s.createHolds.Add(1)
	}
}

// hold parks the calling background goroutine until the foreground has
// executed k further plan steps. Returns false if it does not apply.
func (s *schedFS) hold(what string, k int) bool {
	if s.stepNow == nil || !s.on.Load() || curGoroutineIsForeground() {
		return false
	}
	s0 := s.stepNow()
	s.holds.Add(1)
	s.holding.Add(1)
	defer s.holding.Add(-1)
	if s.trace != nil {
		s.trace("HOLD %s begins at step %d", what, s0)
		defer func() { s.trace("HOLD %s ends at step %d", what, s.stepNow()) }()
	}
	// Held while the rest of the system makes progress (file-system operations
	// by other goroutines: the foreground may take a crash image per operation,
	// which is slow compared to a yield); released after 30000 consecutive
	// yields without any (the foreground is then waiting for this very job, or
	// computing), or after a generous total.
	last, idle := s.ops.Load(), 0
	for i := 0; i < 3000000 && s.on.Load(); i++ {
		if s.stepNow() >= s0+int64(k) {
			return true
		}
		if cur := s.ops.Load(); cur != last {
			last, idle = cur, 0
		} else if idle++; idle > 30000 {
			if s.trace != nil && DebugHoldStacks {
				buf := make([]byte, 1<<20)
				s.trace("HOLD idle exit; goroutines:\n%s", buf[:runtime.Stack(buf, true)])
			}
			return true
		}
		runtime.Gosched()
	}
	return true
}

func (f *schedFile) Sync() error {
	f.holdManifestSync()
	err := f.File.Sync()
	if f.dir {
		f.s.after("dirsync", f.path)
	} else {
		f.s.after("sync", f.path)
	}
	return err
}

func (f *schedFile) SyncData() error {
	err := f.File.SyncData()
	f.s.after("sync", f.path)
	return err
}

func (f *schedFile) SyncTo(length int64) (bool, error) {
	full, err := f.File.SyncTo(length)
	f.s.after("sync", f.path)
	return full, err
}

func (f *schedFile) Close() error {
	err := f.File.Close()
	if !f.dir {
		f.s.after("close", f.path)
	}
	return err
}

// foregroundGID is the goroutine id of the goroutine executing plan steps.
var foregroundGID atomic.Int64

func curGoroutineID() int64 {
	var buf [64]byte
	n := runtime.Stack(buf[:], false)
	// "goroutine 123 [running]:"
	var id int64
	for _, c := range buf[10:n] {
		if c < '0' || c > '9' {
			break
		}
		id = id*10 + int64(c-'0')
	}
	return id
}

func curGoroutineIsForeground() bool { return curGoroutineID() == foregroundGID.Load() }
