// Package evid is the shared runner of every /verif check.
//
// A check is a Spec[P]: a rapid generator of a plan P (pure data, JSON
// round-trippable) and a deterministic executor Exec(P) that returns an error
// iff the property is violated on that plan. Run does everything else: the
// regression tier (replays/<id>/*.json), known-finding demonstrations, the
// rapid campaign with a seed derived from VERIF_SEED, capture of the smallest
// failing plan as a replay file, the VIOLATION line, and the evidence file.
package evid

import (
	"bytes"
	"encoding/json"
	"flag"
	"fmt"
	"hash/fnv"
	"os"
	"path/filepath"
	"runtime/debug"
	"sort"
	"strconv"
	"strings"
	"sync"
	"syscall"
	"testing"
	"testing/synctest"
	"time"

	"pgregory.net/rapid"
)

// Outcome describes one executed case.
type Outcome struct {
	// NonTrivial is the verdict of the property's stated non-triviality rule.
	NonTrivial bool
	// Labels classify the case (what the generator actually produced).
	Labels []string
	// Excluded, if non-empty, names the known-finding signature this case was
	// excluded for (the case was not checked).
	Excluded string
	// Extra counters merged (summed) into coverage.counters.
	Counters map[string]int
}

// Known is a demonstration input for a finding listed in known_findings.jsonl.
type Known[P any] struct {
	Signature string
	Plan      P
}

// Spec describes one property check.
type Spec[P any] struct {
	ID          string
	Level       string // exploration | fault_enumeration
	Rule        string
	Assumptions []string
	Gen         func(t *rapid.T) P
	Exec        func(p P) (Outcome, error)
	// Case counts per shard.
	Quick, Thorough int
	// Known demonstrations; only those whose signature is listed as a
	// "finding" in known_findings.jsonl are consulted.
	Known []Known[P]
	// Exhaustive is reported in evidence when the check enumerates its space.
	Exhaustive bool
	// ExtraCoverage is merged into coverage at the end (measured by the check).
	ExtraCoverage func() map[string]any
	// ShrinkTime overrides the shrinking budget.
	ShrinkTime time.Duration
	// Sample returns a compact description of a plan for evidence samples
	// (default: the plan's JSON, truncated).
	Sample func(p P) any
	// Bubble runs the whole check inside one testing/synctest bubble (virtual
	// time, runtime-proved deadlock detection). All cases of a process share the
	// bubble because Pebble pools objects holding channels across DB instances.
	Bubble bool
}

type tbWrap struct{ *testing.T }

// realNow returns wall-clock time even inside a synctest bubble.
func realNow() time.Time {
	var tv syscall.Timeval
	if err := syscall.Gettimeofday(&tv); err != nil {
		return time.Now()
	}
	return time.Unix(tv.Sec, int64(tv.Usec)*1000)
}

// Env is the run configuration taken from the environment.
type Env struct {
	Dir     string // /verif
	Tier    string
	Seed    int64
	Shard   int
	NShards int
	Checks  int // override
	Replay  string
}

func GetEnv() Env {
	e := Env{Dir: "/verif", Tier: "quick", NShards: 1}
	if v := os.Getenv("VERIF_DIR"); v != "" {
		e.Dir = v
	}
	if v := os.Getenv("VERIF_TIER"); v == "thorough" {
		e.Tier = v
	}
	if v, err := strconv.ParseInt(os.Getenv("VERIF_SEED"), 10, 64); err == nil {
		e.Seed = v
	}
	if v, err := strconv.Atoi(os.Getenv("VERIF_SHARD")); err == nil {
		e.Shard = v
	}
	if v, err := strconv.Atoi(os.Getenv("VERIF_NSHARDS")); err == nil && v > 0 {
		e.NShards = v
	}
	if v, err := strconv.Atoi(os.Getenv("VERIF_CHECKS")); err == nil && v > 0 {
		e.Checks = v
	}
	e.Replay = os.Getenv("VERIF_REPLAY")
	return e
}

// RapidSeed derives the rapid seed from VERIF_SEED and the shard; never 0.
func (e Env) RapidSeed() uint64 {
	s := uint64(e.Seed)*1000003 + uint64(e.Shard) + 1
	if s == 0 {
		s = 1
	}
	return s
}

type finding struct {
	Status    string `json:"status"` // finding | fixed
	Property  string `json:"property"`
	Signature string `json:"signature"`
	What      string `json:"what"`
	Commit    string `json:"commit,omitempty"`
}

var (
	findingsOnce sync.Once
	findings     []finding
)

func loadFindings(dir string) []finding {
	findingsOnce.Do(func() {
		path := filepath.Join(dir, "known_findings.jsonl")
		if v := os.Getenv("VERIF_KNOWN_FINDINGS"); v != "" {
			path = v // development only
		}
		b, err := os.ReadFile(path)
		if err != nil {
			return
		}
		for _, l := range strings.Split(string(b), "\n") {
			l = strings.TrimSpace(l)
			if l == "" || strings.HasPrefix(l, "#") {
				continue
			}
			var f finding
			if json.Unmarshal([]byte(l), &f) == nil {
				findings = append(findings, f)
			}
		}
	})
	return findings
}

// FindingActive reports whether (id, sig) is listed as an unrepaired finding in
// known_findings.jsonl. Generators consult it to exclude the class by
// construction; if the entry is removed (or marked fixed) the class is
// generated again.
func FindingActive(id, sig string) bool {
	for _, f := range loadFindings(GetEnv().Dir) {
		if f.Property == id && f.Signature == sig && f.Status == "finding" {
			return true
		}
	}
	return false
}

func findingWhat(id, sig string) string {
	for _, f := range loadFindings(GetEnv().Dir) {
		if f.Property == id && f.Signature == sig {
			return f.What
		}
	}
	return ""
}

type collector struct {
	mu         sync.Mutex
	evals      int
	nontrivial map[uint64]struct{}
	nontrivN   int
	labels     map[string]int
	counters   map[string]int
	excluded   map[string]int
	samples    []any
	sampleSeen map[uint64]struct{}
}

func newCollector() *collector {
	return &collector{nontrivial: map[uint64]struct{}{}, labels: map[string]int{}, counters: map[string]int{},
		excluded: map[string]int{}, sampleSeen: map[uint64]struct{}{}}
}

func hashBytes(b []byte) uint64 {
	h := fnv.New64a()
	h.Write(b)
	return h.Sum64()
}

func defaultSample(js []byte) any {
	if len(js) <= 3000 {
		return json.RawMessage(js)
	}
	return string(js[:3000]) + "...(truncated)"
}

// safeExec runs exec converting a panic on the calling goroutine into an error.
func safeExec[P any](exec func(P) (Outcome, error), p P) (out Outcome, err error) {
	defer func() {
		if r := recover(); r != nil {
			err = fmt.Errorf("panic: %v\n%s", r, debug.Stack())
		}
	}()
	return exec(p)
}

func writeFileAtomic(path string, b []byte) error {
	if err := os.MkdirAll(filepath.Dir(path), 0o755); err != nil {
		return err
	}
	tmp := path + ".tmp" + strconv.Itoa(os.Getpid())
	if err := os.WriteFile(tmp, b, 0o644); err != nil {
		return err
	}
	return os.Rename(tmp, path)
}

// Run executes the check. It must be called from a Test function.
func Run[P any](t *testing.T, s Spec[P]) {
	if s.Bubble {
		synctest.Test(t, func(t *testing.T) { run(t, s) })
		return
	}
	run(t, s)
}

func run[P any](t *testing.T, s Spec[P]) {
	env := GetEnv()
	start := realNow()
	col := newCollector()
	violations := 0
	var violationLines []string

	report := func(replayPath string, err error) {
		violations++
		line := fmt.Sprintf("VIOLATION property=%s replay=%s", s.ID, replayPath)
		violationLines = append(violationLines, line)
		fmt.Printf("%s\n", line)
		msg := err.Error()
		if len(msg) > 6000 {
			msg = msg[:6000] + "...(truncated)"
		}
		fmt.Printf("  detail: %s\n", strings.ReplaceAll(msg, "\n", "\n    "))
	}

	record := func(p P, js []byte, out Outcome) {
		col.mu.Lock()
		defer col.mu.Unlock()
		col.evals++
		for _, l := range out.Labels {
			col.labels[l]++
		}
		for k, v := range out.Counters {
			col.counters[k] += v
		}
		if out.Excluded != "" {
			col.excluded[out.Excluded]++
			return
		}
		if out.NonTrivial {
			col.nontrivN++
			h := hashBytes(js)
			if _, ok := col.nontrivial[h]; !ok {
				col.nontrivial[h] = struct{}{}
				if len(col.samples) < 3 {
					if s.Sample != nil {
						col.samples = append(col.samples, s.Sample(p))
					} else {
						col.samples = append(col.samples, defaultSample(js))
					}
				}
			}
		}
	}

	// ---- replay mode: execute one plan file without rapid.
	if env.Replay != "" {
		b, err := os.ReadFile(env.Replay)
		if err != nil {
			t.Fatalf("replay: %v", err)
		}
		var p P
		if err := json.Unmarshal(b, &p); err != nil {
			t.Fatalf("replay: bad plan %s: %v", env.Replay, err)
		}
		// A plan whose failure depends on goroutine scheduling may need several
		// executions: VERIF_REPLAY_REPEAT=n repeats until the first failure.
		reps := 1
		if v, e := strconv.Atoi(os.Getenv("VERIF_REPLAY_REPEAT")); e == nil && v > 1 {
			reps = v
		}
		for i := 0; i < reps; i++ {
			_, err = safeExec(s.Exec, p)
			if err != nil {
				if reps > 1 {
					fmt.Printf("replay attempt %d of %d failed\n", i+1, reps)
				}
				report(env.Replay, err)
				t.Fail()
				return
			}
		}
		fmt.Printf("REPLAY-OK property=%s replay=%s\n", s.ID, env.Replay)
		return
	}

	writeEvidence := func() {
		col.mu.Lock()
		defer col.mu.Unlock()
		if len(col.samples) == 0 {
			col.samples = append(col.samples, "no non-trivial case in this run")
		}
		cov := map[string]any{
			"evaluations":          col.evals,
			"distinct_nontrivial":  len(col.nontrivial),
			"nontrivial_evaluated": col.nontrivN,
			"rule":                 s.Rule,
			"samples":              col.samples,
			"labels":               col.labels,
			"counters":             col.counters,
			"excluded_known":       col.excluded,
			"rapid_seed":           env.RapidSeed(),
			"shard":                env.Shard,
			"nshards":              env.NShards,
		}
		if s.Exhaustive {
			cov["exhaustive"] = true
		}
		if s.ExtraCoverage != nil {
			for k, v := range s.ExtraCoverage() {
				cov[k] = v
			}
		}
		if env.NShards > 1 {
			hs := make([]string, 0, len(col.nontrivial))
			for h := range col.nontrivial {
				hs = append(hs, strconv.FormatUint(h, 16))
			}
			sort.Strings(hs)
			cov["_nontrivial_hashes"] = hs
		}
		ev := map[string]any{
			"property_id": s.ID,
			"tier":        env.Tier,
			"seed":        env.Seed,
			"level":       s.Level,
			"coverage":    cov,
			"assumptions": s.Assumptions,
			"wall_s":      realNow().Sub(start).Seconds(),
			"violations":  violations,
		}
		b, _ := json.MarshalIndent(ev, "", " ")
		path := filepath.Join(env.Dir, "evidence", s.ID+".json")
		if env.NShards > 1 {
			path = filepath.Join(env.Dir, "evidence", ".parts", fmt.Sprintf("%s.%d.json", s.ID, env.Shard))
		}
		if err := writeFileAtomic(path, b); err != nil {
			fmt.Printf("evidence write failed: %v\n", err)
		}
	}
	defer writeEvidence()

	// ---- regression tier: saved replays (shard 0 only).
	if env.Shard == 0 {
		files, _ := filepath.Glob(filepath.Join(env.Dir, "replays", s.ID, "*.json"))
		sort.Strings(files)
		for _, f := range files {
			b, err := os.ReadFile(f)
			if err != nil {
				continue
			}
			var p P
			dec := json.NewDecoder(bytes.NewReader(b))
			if err := dec.Decode(&p); err != nil {
				fmt.Printf("replay %s: unreadable plan (%v), skipped\n", f, err)
				continue
			}
			// A replay may kill the process (panic on a background goroutine): leave
			// the plan where the driver looks for the in-flight case.
			inflightR := filepath.Join(env.Dir, "evidence", ".inflight", fmt.Sprintf("%s.%d.json", s.ID, env.Shard))
			os.MkdirAll(filepath.Dir(inflightR), 0o755)
			os.WriteFile(inflightR, b, 0o644)
			out, err := safeExec(s.Exec, p)
			os.Remove(inflightR)
			out.Labels = append(out.Labels, "regression-replay")
			record(p, b, out)
			if err != nil {
				report(f, err)
				t.Fail()
			}
		}
		// known-finding demonstrations
		for _, k := range s.Known {
			if !FindingActive(s.ID, k.Signature) {
				continue
			}
			_, err := safeExec(s.Exec, k.Plan)
			if err != nil {
				fmt.Printf("KNOWN-FINDING: property=%s %s [%s]\n", s.ID, findingWhat(s.ID, k.Signature), k.Signature)
			} else {
				fmt.Printf("note: known finding %s/%s no longer reproduces on this tree\n", s.ID, k.Signature)
			}
		}
		if t.Failed() {
			return
		}
	}

	// ---- rapid campaign.
	checks := s.Quick
	if env.Tier == "thorough" {
		checks = s.Thorough
	}
	if env.Checks > 0 {
		checks = env.Checks
	}
	if checks <= 0 {
		checks = 100
	}
	shrink := s.ShrinkTime
	if shrink == 0 {
		shrink = 20 * time.Second
	}
	flag.Set("rapid.checks", strconv.Itoa(checks))
	flag.Set("rapid.seed", strconv.FormatUint(env.RapidSeed(), 10))
	flag.Set("rapid.nofailfile", "true")
	flag.Set("rapid.shrinktime", shrink.String())

	inflight := filepath.Join(env.Dir, "evidence", ".inflight", fmt.Sprintf("%s.%d.json", s.ID, env.Shard))
	os.MkdirAll(filepath.Dir(inflight), 0o755)
	failPath := filepath.Join(env.Dir, "replays", s.ID, fmt.Sprintf("fail-seed%d-shard%d.json", env.Seed, env.Shard))
	var bestFail []byte
	var bestErr error
	failed := false
	var firstFail time.Time

	defer func() {
		os.Remove(inflight)
		if failed && bestFail != nil {
			if err := writeFileAtomic(failPath, bestFail); err != nil {
				fmt.Printf("cannot write replay file: %v\n", err)
			}
			report(failPath, bestErr)
		}
	}()

	// tbWrap hides *testing.T from rapid so that it does not call t.Deadline
	// (which panics inside a synctest bubble).
	rapid.Check(tbWrap{t}, func(rt *rapid.T) {
		if failed && realNow().Sub(firstFail) > shrink {
			// real-time shrinking budget exhausted (rapid's own budget uses the
			// possibly virtual clock): make every further candidate pass so that
			// the shrinker stops; the smallest failing plan is already saved.
			return
		}
		p := s.Gen(rt)
		js, err := json.Marshal(p)
		if err != nil {
			panic(fmt.Sprintf("plan not serializable: %v", err))
		}
		os.WriteFile(inflight, js, 0o644)
		out, err := safeExec(s.Exec, p)
		if !failed {
			record(p, js, out)
		}
		if err != nil {
			if !failed {
				firstFail = realNow()
			}
			failed = true
			// keep the last failing plan: rapid re-runs the minimal one last.
			bestFail, bestErr = js, err
			rt.Fatalf("property %s violated: %v", s.ID, err)
		}
	})
}
