package fault

import (
	"encoding/json"
	"fmt"
	"os"
	"runtime"
	"strconv"
	"testing"
	"time"

	"pgregory.net/rapid"
)

// TestDbg is a development aid: FAULT_DBG=n runs n example plans and prints
// one line per plan.
func TestDbg(t *testing.T) {
	n, _ := strconv.Atoi(os.Getenv("FAULT_DBG"))
	if n == 0 {
		t.Skip()
	}
	from, _ := strconv.Atoi(os.Getenv("FAULT_DBG_FROM"))
	watchdog = 5 * time.Second
	g := rapid.Custom(genPlan)
	for i := from; i < from+n; i++ {
		p := g.Example(i)
		t0 := time.Now()
		out, err := exec(p)
		d := time.Since(t0)
		fmt.Printf("%d %.3fs nt=%v goroutines=%d %v\n", i, d.Seconds(), out.NonTrivial, runtime.NumGoroutine(), out.Labels)
		if err != nil || d > 3*time.Second {
			js, _ := json.Marshal(p)
			os.WriteFile(fmt.Sprintf("/var/tmp/mut/fault/dbg-%d.json", i), js, 0o644)
			fmt.Printf("   ERR: %v\n", err)
			if os.Getenv("FAULT_DBG_STACKS") != "" && d > 3*time.Second {
				buf := make([]byte, 1<<22)
				buf = buf[:runtime.Stack(buf, true)]
				os.WriteFile(fmt.Sprintf("/var/tmp/mut/fault/stacks-%d.txt", i), buf, 0o644)
			}
		}
	}
}
