package fault

import (
	"encoding/json"
	"fmt"
	"os"
	"runtime"
	"runtime/debug"
	"strconv"
	"testing"
	"time"

	"github.com/cockroachdb/pebble/verifharness/dbm"
	"github.com/cockroachdb/pebble/vfs/errorfs"
	"pgregory.net/rapid"
)

// TestDbg is a development aid: FAULT_DBG=n runs n example plans and prints
// one line per plan.
func TestDbg(t *testing.T) {
	n, _ := strconv.Atoi(os.Getenv("FAULT_DBG"))
	if n == 0 {
		t.Skip()
	}
	from, _ := strconv.Atoi(os.Getenv("FAULT_DBG_FROM"))
	watchdog = 5 * time.Second
	g := rapid.Custom(genPlan)
	for i := from; i < from+n; i++ {
		p := g.Example(i)
		t0 := time.Now()
		out, err := exec(p)
		d := time.Since(t0)
		fmt.Printf("%d %.3fs nt=%v goroutines=%d %v\n", i, d.Seconds(), out.NonTrivial, runtime.NumGoroutine(), out.Labels)
		if err != nil || d > 3*time.Second {
			js, _ := json.Marshal(p)
			os.WriteFile(fmt.Sprintf("/var/tmp/mut/fault/dbg-%d.json", i), js, 0o644)
			fmt.Printf("   ERR: %v\n", err)
			if os.Getenv("FAULT_DBG_STACKS") != "" && d > 3*time.Second {
				buf := make([]byte, 1<<22)
				buf = buf[:runtime.Stack(buf, true)]
				os.WriteFile(fmt.Sprintf("/var/tmp/mut/fault/stacks-%d.txt", i), buf, 0o644)
			}
		}
	}
}

// TestDbgReplay: FAULT_REPLAY=file [FAULT_REPEAT=n] executes one plan.
func TestDbgReplay(t *testing.T) {
	f := os.Getenv("FAULT_REPLAY")
	if f == "" {
		t.Skip()
	}
	b, err := os.ReadFile(f)
	if err != nil {
		t.Fatal(err)
	}
	var p Plan
	if err := json.Unmarshal(b, &p); err != nil {
		t.Fatal(err)
	}
	n, _ := strconv.Atoi(os.Getenv("FAULT_REPEAT"))
	fails := 0
	var stacks []string
	if os.Getenv("FAULT_STACK") != "" {
		debugFire = func(op errorfs.Op) {
			stacks = append(stacks, fmt.Sprintf("%v %s\n%s", op.Kind, op.Path, debug.Stack()))
		}
	}
	for i := 0; i < max(n, 1); i++ {
		stacks = nil
		out, err := exec(p)
		if err != nil {
			fails++
			if fails == 1 {
				fmt.Printf("%v\n   ERR: %v\n", out.Labels, err)
				for _, s := range stacks {
					fmt.Println(s)
				}
			}
		}
	}
	fmt.Printf("failures: %d of %d\n", fails, max(n, 1))
}

func TestDbgFinding(t *testing.T) {
	if os.Getenv("FAULT_FINDING") == "" {
		t.Skip()
	}
	b, _ := os.ReadFile("/var/tmp/mut/fault/dbg-126.json")
	var p Plan
	json.Unmarshal(b, &p)
	p.Opt.DisableAutoCompaction = true
	for n := 1; n <= 14; n++ {
		p.Rules = []Rule{{Kinds: []string{"read"}, Classes: []string{"sst"}, From: 4, Nth: n}}
		p.Opt.CacheSize = 1 << 10
		p.Steps = []Step{
			{K: "write", Ops: []dbm.Op{{K: "set", A: "a@1", V: "v1"}, {K: "set", A: "c", V: "v2"}, {K: "rkset", A: "aa", B: "bb", S: 2, V: "r1"}, {K: "set", A: "e@5", V: "v3"}}, Sync: true},
			{K: "flush"},
			{K: "write", Ops: []dbm.Op{{K: "set", A: "a@2", V: "v4"}, {K: "set", A: "d", V: "v5"}, {K: "rkset", A: "b", B: "c", S: 3, V: "r2"}}, Sync: true},
			{K: "flush"},
			{K: "compact", A: "a", B: "z"},
			{K: "faultsoff"},
		}
		p.End = EndPlan{Surv: []int{0}}
		fails := 0
		var first string
		var labels []string
		for i := 0; i < 5; i++ {
			out, err := exec(p)
			labels = out.Labels
			if err != nil {
				fails++
				first = err.Error()
			}
		}
		fmt.Printf("nth=%d fails=%d/5 %v\n    %s\n", n, fails, labels, first)
	}
}

func TestDbgKnown(t *testing.T) {
	if os.Getenv("FAULT_KNOWN") == "" {
		t.Skip()
	}
	for _, k := range knownPlans() {
		fails := 0
		var e error
		for i := 0; i < 20; i++ {
			if _, err := exec(k.Plan); err != nil {
				fails++
				e = err
			}
		}
		fmt.Printf("%s: %d/20 fail: %v\n", k.Signature, fails, e)
		p := k.Plan
		p.NoExclude = false
		out, err := exec(p)
		fmt.Printf("with exclusion: excluded=%q labels=%v err=%v\n", out.Excluded, out.Labels, err)
	}
}

func TestDbgFinding2(t *testing.T) {
	if os.Getenv("FAULT_FINDING2") == "" {
		t.Skip()
	}
	p := knownPlans()[0].Plan
	p.Opt.ValueBlocks = true
	for n := 1; n <= 16; n++ {
		p.Rules = []Rule{{Kinds: []string{"read"}, Classes: []string{"sst"}, From: 4, Nth: n}}
		p.Steps = []Step{
			{K: "write", Ops: []dbm.Op{{K: "set", A: "b@4", V: "v1"}, {K: "set", A: "b@3", V: "v2"}}, Sync: true},
			{K: "flush"},
			{K: "write", Ops: []dbm.Op{{K: "set", A: "a", V: "v3"}, {K: "set", A: "b@4", V: "v4"}}, Sync: true},
			{K: "flush"},
			{K: "compact", A: "a", B: "z"},
			{K: "faultsoff"},
		}
		fails := 0
		var first string
		var labels []string
		for i := 0; i < 5; i++ {
			out, err := exec(p)
			labels = out.Labels
			if err != nil {
				fails++
				first = err.Error()
			}
		}
		fmt.Printf("nth=%d fails=%d/5 %v\n    %s\n", n, fails, labels, first)
	}
}
