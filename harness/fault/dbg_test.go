package fault

import (
	"encoding/json"
	"fmt"
	"os"
	"runtime/debug"
	"strconv"
	"testing"
	"time"

	"github.com/cockroachdb/pebble/vfs/errorfs"
	"pgregory.net/rapid"
)

// Development aids (skipped unless their environment variable is set); they are
// not part of the check.

// TestDbg: FAULT_DBG=n [FAULT_DBG_FROM=i] executes n example plans, one line each.
func TestDbg(t *testing.T) {
	n, _ := strconv.Atoi(os.Getenv("FAULT_DBG"))
	if n == 0 {
		t.Skip()
	}
	from, _ := strconv.Atoi(os.Getenv("FAULT_DBG_FROM"))
	g := rapid.Custom(genPlan)
	for i := from; i < from+n; i++ {
		p := g.Example(i)
		t0 := time.Now()
		out, err := exec(p)
		fmt.Printf("%d %.3fs nt=%v excluded=%q %v\n", i, time.Since(t0).Seconds(), out.NonTrivial, out.Excluded, out.Labels)
		if err != nil {
			js, _ := json.Marshal(p)
			fmt.Printf("   ERR: %v\n   PLAN: %s\n", err, js)
		}
	}
}

// TestDbgReplay: FAULT_REPLAY=file [FAULT_REPEAT=n] [FAULT_STACK=1] executes one
// plan n times and prints the first failure (with the stack of every goroutine
// that was hit by a fault if FAULT_STACK is set).
func TestDbgReplay(t *testing.T) {
	f := os.Getenv("FAULT_REPLAY")
	if f == "" {
		t.Skip()
	}
	b, err := os.ReadFile(f)
	if err != nil {
		t.Fatal(err)
	}
	var p Plan
	if err := json.Unmarshal(b, &p); err != nil {
		t.Fatal(err)
	}
	n, _ := strconv.Atoi(os.Getenv("FAULT_REPEAT"))
	fails := 0
	var stacks []string
	if os.Getenv("FAULT_STACK") != "" {
		debugFire = func(op errorfs.Op) {
			stacks = append(stacks, fmt.Sprintf("%v %s\n%s", op.Kind, op.Path, debug.Stack()))
		}
		defer func() { debugFire = nil }()
	}
	for i := 0; i < max(n, 1); i++ {
		stacks = nil
		out, err := exec(p)
		if err != nil {
			fails++
			if fails == 1 {
				fmt.Printf("%v\n   ERR: %v\n", out.Labels, err)
				for _, s := range stacks {
					fmt.Println(s)
				}
			}
		} else if i == 0 {
			fmt.Printf("%v excluded=%q\n", out.Labels, out.Excluded)
		}
	}
	fmt.Printf("failures: %d of %d\n", fails, max(n, 1))
}

// TestDbgKnown: FAULT_KNOWN=1 executes every known-finding demonstration 20 times.
func TestDbgKnown(t *testing.T) {
	if os.Getenv("FAULT_KNOWN") == "" {
		t.Skip()
	}
	for _, k := range knownPlans() {
		fails := 0
		var e error
		for i := 0; i < 20; i++ {
			if _, err := exec(k.Plan); err != nil {
				fails++
				e = err
			}
		}
		fmt.Printf("%s: %d/20 fail: %v\n", k.Signature, fails, e)
		p := k.Plan
		p.NoExclude = false
		out, err := exec(p)
		fmt.Printf("   with NoExclude=false: excluded=%q labels=%v err=%v\n", out.Excluded, out.Labels, err)
	}
}
