package fault

import (
	"context"
	"fmt"
	"runtime/debug"
	"sort"
	"strings"
	"sync"
	"time"

	"github.com/cockroachdb/errors"
	"github.com/cockroachdb/pebble"
	"github.com/cockroachdb/pebble/internal/testkeys"
	"github.com/cockroachdb/pebble/verifharness/dbm"
	"github.com/cockroachdb/pebble/verifharness/evid"
	"github.com/cockroachdb/pebble/vfs"
	"github.com/cockroachdb/pebble/vfs/errorfs"
)

// watchdog bounds every call into the DB. A call that does not return within
// it is never a violation: the case ends "inconclusive-timeout".
var watchdog = 40 * time.Second

func cmpKey(a, b string) int { return testkeys.Comparer.Compare([]byte(a), []byte(b)) }

func splitPrefix(k string) string {
	if i := strings.LastIndexByte(k, '@'); i >= 0 {
		return k[:i]
	}
	return k
}

func sfxBytes(n int) []byte {
	if n <= 0 {
		return nil
	}
	return []byte(fmt.Sprintf("@%d", n))
}

func fmtVal(s string) string {
	if len(s) > 32 {
		return fmt.Sprintf("%q..(%d)", s[:32], len(s))
	}
	return fmt.Sprintf("%q", s)
}

// ---------------------------------------------------------------- logger / events

// recLogger records Fatalf calls. Pebble expects Fatalf not to return; it is
// called with arbitrary mutexes held or temporarily released (e.g. rotateWAL
// calls it between d.mu.Unlock and the deferred d.mu.Unlock of its caller), so
// neither panicking nor runtime.Goexit is safe: the calling goroutine is parked
// forever and the executor, which never calls into the DB on its own
// goroutine, learns about the fatal error through the channel.
type recLogger struct {
	mu     sync.Mutex
	fatals []string
	once   sync.Once
	ch     chan struct{}
}

func newLogger() *recLogger { return &recLogger{ch: make(chan struct{})} }

func (l *recLogger) Infof(format string, args ...interface{})  {}
func (l *recLogger) Errorf(format string, args ...interface{}) {}
func (l *recLogger) Fatalf(format string, args ...interface{}) {
	l.mu.Lock()
	l.fatals = append(l.fatals, fmt.Sprintf(format, args...))
	l.mu.Unlock()
	l.once.Do(func() { close(l.ch) })
	select {}
}

func (l *recLogger) fataled() bool {
	select {
	case <-l.ch:
		return true
	default:
		return false
	}
}

func (l *recLogger) first() string {
	l.mu.Lock()
	defer l.mu.Unlock()
	if len(l.fatals) == 0 {
		return ""
	}
	return l.fatals[0]
}

type events struct {
	mu          sync.Mutex
	bgErrors    []string
	corruptions []string
	flushes     int
	compactions int
}

func (e *events) listener() *pebble.EventListener {
	return &pebble.EventListener{
		BackgroundError: func(err error) {
			if errors.Is(err, pebble.ErrCancelledCompaction) {
				return
			}
			e.mu.Lock()
			e.bgErrors = append(e.bgErrors, err.Error())
			e.mu.Unlock()
		},
		DataCorruption: func(info pebble.DataCorruptionInfo) {
			e.mu.Lock()
			e.corruptions = append(e.corruptions, fmt.Sprintf("%s", info))
			e.mu.Unlock()
		},
		FlushEnd: func(fi pebble.FlushInfo) {
			if fi.Err == nil {
				e.mu.Lock()
				e.flushes++
				e.mu.Unlock()
			}
		},
		CompactionEnd: func(ci pebble.CompactionInfo) {
			if ci.Err == nil {
				e.mu.Lock()
				e.compactions++
				e.mu.Unlock()
			}
		},
	}
}

// ---------------------------------------------------------------- guarded calls

const (
	stOK = iota
	stFatal
	stPanic
	stTimeout
)

type callRes[T any] struct {
	v     T
	pan   any
	stack string
}

// call runs f on a fresh goroutine and waits for its result, for a Fatalf on
// lg, or for the watchdog. After anything but stOK the DB must be abandoned
// (the goroutine running f may be parked forever).
func call[T any](lg *recLogger, f func() T) (v T, st int, detail string) {
	ch := make(chan callRes[T], 1)
	go func() {
		var res callRes[T]
		defer func() {
			if p := recover(); p != nil {
				res.pan = p
				res.stack = string(debug.Stack())
			}
			ch <- res
		}()
		res.v = f()
	}()
	t := time.NewTimer(watchdog)
	defer t.Stop()
	select {
	case res := <-ch:
		if res.pan != nil {
			return v, stPanic, fmt.Sprintf("%v\n%s", res.pan, res.stack)
		}
		return res.v, stOK, ""
	case <-lg.ch:
		return v, stFatal, lg.first()
	case <-t.C:
		return v, stTimeout, ""
	}
}

type flow int

const (
	flowGo flow = iota
	flowCrashed
	flowInconclusive
)

// ---------------------------------------------------------------- runner

type runner struct {
	p   *Plan
	mem *vfs.MemFS
	inj *injector
	// gate of the current DB instance; failedOpens are the gates of instances
	// whose Open returned an error.
	gate        *gate
	failedOpens []*gate
	db          *pebble.DB
	lg          *recLogger
	ev          *events

	// versions is the history of logical states; versions[durable] is the newest
	// one guaranteed to survive a crash; pending is the state an in-flight (or
	// in-doubt) commit would produce.
	versions []*dbm.State
	durable  int
	pending  *dbm.State

	opts *pebble.Options
	extN int
	// handles: the file handles opened by the current DB instance
	handles *handleReg

	stepIdx int
	labels  map[string]bool
	C       map[string]int
	// fgEffect: a foreground operation returned an error, the DB declared a fatal
	// error or panicked with the injected error, after a fault had fired.
	fgEffect bool
}

func (r *runner) label(l string)     { r.labels[l] = true }
func (r *runner) latest() *dbm.State { return r.versions[len(r.versions)-1] }
func (r *runner) walOn() bool        { return !r.p.Opt.DisableWAL }
func (r *runner) fired() bool        { return r.inj.firedTotal() > 0 }

func (r *runner) where() string {
	if r.stepIdx < 0 {
		return "initial Open"
	}
	if r.stepIdx >= len(r.p.Steps) {
		return "end of plan"
	}
	return fmt.Sprintf("step %d %s", r.stepIdx, r.p.Steps[r.stepIdx].String())
}

// after interprets the status of a guarded call.
func (r *runner) after(st int, detail, what string) (flow, error) {
	switch st {
	case stOK:
		return flowGo, nil
	case stTimeout:
		r.label("inconclusive-timeout")
		r.gate.freeze("abandoned")
		return flowInconclusive, nil
	case stFatal:
		r.gate.freeze("abandoned")
		if !r.fired() {
			return flowCrashed, fmt.Errorf("%s: %s: Pebble called Fatalf although no fault had been injected: %s", r.where(), what, detail)
		}
		r.label("fatal")
		r.label("fatal:" + fatalClass(detail))
		r.fgEffect = true
		return flowCrashed, nil
	default: // stPanic
		r.gate.freeze("abandoned")
		if !r.fired() || !strings.Contains(detail, "injected error") {
			return flowCrashed, fmt.Errorf("%s: %s: panic: %s", r.where(), what, detail)
		}
		// commitWrite panics with the WAL writer's error; the commit pipeline is
		// left locked: equivalent to a fatal error.
		r.label("panic-with-injected-error")
		r.fgEffect = true
		return flowCrashed, nil
	}
}

func fatalClass(msg string) string {
	switch {
	case strings.Contains(msg, "atomicfs.Marker"):
		return "marker-dirsync-panic"
	case strings.Contains(msg, "MANIFEST"):
		return "manifest"
	case strings.Contains(msg, "fatal commit error"):
		return "commit"
	case strings.Contains(msg, "closing WAL"):
		return "wal-close"
	case strings.Contains(msg, "creating new WAL"):
		return "wal-create"
	}
	return "other"
}

// fgError notes an error returned by a foreground operation; it is a violation
// unless a fault has fired before.
func (r *runner) fgError(what string, err error) error {
	if !r.fired() {
		return fmt.Errorf("%s: %s returns an error although no fault had been injected: %v", r.where(), what, err)
	}
	r.fgEffect = true
	return nil
}

// buildOptions is dbm.BuildOptions with two file-cache shards instead of
// GOMAXPROCS: every shard owns a goroutine, and the goroutines of a DB that is
// abandoned after a fatal error stay parked for the rest of the process.
func buildOptions(op dbm.OptPlan, fs vfs.FS, el *pebble.EventListener, lg pebble.Logger) *pebble.Options {
	o := dbm.BuildOptions(op, fs, el, lg)
	o.FileCacheShards = 2
	return o
}

type openRes struct {
	db  *pebble.DB
	err error
}

// open opens the DB on r.fs. An Open that fails under faults is retried once
// with the faults paused; that attempt must succeed.
func (r *runner) open() (flow, error) {
	for attempt := 0; attempt < 2; attempt++ {
		r.lg = newLogger()
		r.gate = &gate{in: r.inj, lg: r.lg}
		r.handles = newHandleReg()
		opts := buildOptions(r.p.Opt, errorfs.Wrap(safeFS{FS: r.mem, reg: r.handles}, r.gate), r.ev.listener(), r.lg)
		r.opts = opts
		var resume func()
		if attempt == 1 {
			resume = r.inj.pause()
		}
		res, st, detail := call(r.lg, func() openRes {
			db, err := pebble.Open("db", opts)
			return openRes{db, err}
		})
		if resume != nil {
			resume()
		}
		if fl, err := r.after(st, detail, "Open"); fl != flowGo || err != nil {
			return fl, err
		}
		if res.err == nil {
			r.db = res.db
			r.C["opens"]++
			return flowGo, nil
		}
		// Whatever the failed Open left running must not touch the store any more.
		r.gate.freeze("Open returned an error")
		r.failedOpens = append(r.failedOpens, r.gate)
		if attempt == 1 {
			return flowGo, fmt.Errorf("%s: Open with all faults paused fails after an Open that failed under faults: %v", r.where(), res.err)
		}
		if err := r.fgError("Open", res.err); err != nil {
			return flowGo, err
		}
		r.label("open-error")
	}
	panic("unreachable")
}

type dumpRes struct {
	st  *dbm.State
	err error
}

// pausedRetries bounds the repetitions of an oracle read that fails although
// all faults are paused: such a read can still share the result of a table
// open / block load that a background goroutine started before the pause and
// that failed (file cache and block cache hand the error of an in-flight load
// to every waiter). Only a failure that persists is a violation.
const pausedRetries = 6

// dump reads the full visible state with all faults paused.
func (r *runner) dump() (*dbm.State, flow, error) {
	resume := r.inj.pause()
	defer resume()
	db := r.db
	var last error
	for i := 0; i < pausedRetries; i++ {
		res, st, detail := call(r.lg, func() dumpRes {
			s, err := dbm.DumpState(db)
			return dumpRes{s, err}
		})
		if fl, err := r.after(st, detail, "full scan"); fl != flowGo || err != nil {
			return nil, fl, err
		}
		if res.err == nil {
			return res.st, flowGo, nil
		}
		if !r.fired() {
			return nil, flowGo, fmt.Errorf("%s: a full scan returns an error although no fault had been injected: %v", r.where(), res.err)
		}
		last = res.err
		r.C["paused-read-retries"]++
	}
	return nil, flowGo, fmt.Errorf("%s: a full scan with all faults paused keeps returning an error (%d attempts): %v", r.where(), pausedRetries, last)
}

type writer interface {
	Set(key, value []byte, o *pebble.WriteOptions) error
	Delete(key []byte, o *pebble.WriteOptions) error
	DeleteRange(start, end []byte, o *pebble.WriteOptions) error
	Merge(key, value []byte, o *pebble.WriteOptions) error
	RangeKeySet(start, end, suffix, value []byte, o *pebble.WriteOptions) error
	RangeKeyUnset(start, end, suffix []byte, o *pebble.WriteOptions) error
	RangeKeyDelete(start, end []byte, o *pebble.WriteOptions) error
}

func applyOp(w writer, o dbm.Op, opt *pebble.WriteOptions) error {
	switch o.K {
	case "set":
		return w.Set([]byte(o.A), o.Value(), opt)
	case "del":
		return w.Delete([]byte(o.A), opt)
	case "delrange":
		return w.DeleteRange([]byte(o.A), []byte(o.B), opt)
	case "merge":
		return w.Merge([]byte(o.A), o.Value(), opt)
	case "rkset":
		return w.RangeKeySet([]byte(o.A), []byte(o.B), sfxBytes(o.S), o.Value(), opt)
	case "rkunset":
		return w.RangeKeyUnset([]byte(o.A), []byte(o.B), sfxBytes(o.S), opt)
	case "rkdel":
		return w.RangeKeyDelete([]byte(o.A), []byte(o.B), opt)
	}
	return fmt.Errorf("harness: unsupported op kind %q", o.K)
}

func validOps(ops []dbm.Op) []dbm.Op {
	var out []dbm.Op
	for _, o := range ops {
		switch o.K {
		case "set", "del", "merge":
			if o.A == "" {
				continue
			}
		case "delrange", "rkset", "rkunset", "rkdel":
			if o.A == "" || o.B == "" || cmpKey(o.A, o.B) >= 0 {
				continue
			}
		default:
			continue
		}
		out = append(out, o)
	}
	return out
}

// health checks the asynchronous reports after a step.
func (r *runner) health() error {
	r.ev.mu.Lock()
	defer r.ev.mu.Unlock()
	if len(r.ev.corruptions) > 0 {
		return fmt.Errorf("%s: DataCorruption event (injected errors never corrupt data): %s", r.where(), r.ev.corruptions[0])
	}
	if len(r.ev.bgErrors) > 0 {
		if !r.fired() {
			return fmt.Errorf("%s: background error although no fault had been injected: %s", r.where(), r.ev.bgErrors[0])
		}
		r.label("bg-error")
	}
	return nil
}

func (r *runner) step(s Step) (flow, error) {
	db, lg := r.db, r.lg
	switch s.K {
	case "write":
		ops := validOps(s.Ops)
		if len(ops) == 0 {
			return flowGo, nil
		}
		next := r.latest().Apply(ops)
		r.pending = next
		firedBefore := r.inj.firedTotal()
		wo := pebble.NoSync
		if s.Sync && r.walOn() {
			wo = pebble.Sync
		}
		err, st, detail := call(lg, func() error {
			if len(ops) == 1 {
				return applyOp(db, ops[0], wo)
			}
			b := db.NewBatch()
			for _, o := range ops {
				if err := applyOp(b, o, nil); err != nil {
					b.Close()
					return errors.Wrapf(err, "harness: building the batch")
				}
			}
			err := b.Commit(wo)
			if cerr := b.Close(); err == nil && cerr != nil {
				return errors.Wrapf(cerr, "harness: Batch.Close")
			}
			return err
		})
		if fl, verr := r.after(st, detail, "commit"); fl != flowGo || verr != nil {
			return fl, verr
		}
		r.C["commits"]++
		if err != nil {
			if strings.Contains(err.Error(), "harness:") {
				return flowGo, fmt.Errorf("%s: %v", r.where(), err)
			}
			if verr := r.fgError("commit", err); verr != nil {
				return flowGo, verr
			}
			// In doubt and the DB is alive: what is visible must be one of the two
			// candidates; the batch may still sit in the WAL, so the case ends here
			// with the recovery oracle (pending stays a candidate).
			r.label("in-doubt-commit-alive")
			got, fl, verr := r.dump()
			if fl != flowGo || verr != nil {
				return fl, verr
			}
			if !got.Equal(r.latest()) && !got.Equal(next) {
				return flowGo, fmt.Errorf("%s: after the failed commit (%v) the visible state is neither the state before nor the state after the batch:%s",
					r.where(), err, describeDiff(got, next))
			}
			r.gate.freeze("abandoned")
			return flowCrashed, nil
		}
		r.versions = append(r.versions, next)
		r.pending = nil
		if s.Sync && r.walOn() {
			r.durable = len(r.versions) - 1
			r.C["sync-commits-acked"]++
			if r.inj.firedTotal() > firedBefore {
				// a fault fired during this acknowledged Sync commit
				if err := r.crashImagesSurv("crash image right after an acknowledged Sync commit", []int{0}); err != nil {
					return flowGo, err
				}
			}
		}
	case "get":
		type getRes struct {
			v   string
			err error
		}
		key := s.A
		res, st, detail := call(lg, func() getRes {
			v, c, err := db.Get([]byte(key))
			if err != nil {
				return getRes{"", err}
			}
			out := string(v)
			if cerr := c.Close(); cerr != nil {
				return getRes{"", cerr}
			}
			return getRes{out, nil}
		})
		if fl, verr := r.after(st, detail, "Get"); fl != flowGo || verr != nil {
			return fl, verr
		}
		r.C["gets"]++
		want, ok := r.latest().Points[key]
		switch {
		case res.err == pebble.ErrNotFound:
			if ok {
				return flowGo, fmt.Errorf("%s: Get returns ErrNotFound, the model has %s (faults fired so far: %d)", r.where(), fmtVal(want), r.inj.firedTotal())
			}
		case res.err != nil:
			if verr := r.fgError("Get", res.err); verr != nil {
				return flowGo, verr
			}
			r.label("read-error-seen")
			r.label("get-error")
		case !ok:
			return flowGo, fmt.Errorf("%s: Get = %s, the model has no such key", r.where(), fmtVal(res.v))
		case res.v != want:
			return flowGo, fmt.Errorf("%s: Get = %s, the model has %s", r.where(), fmtVal(res.v), fmtVal(want))
		}
	case "scan", "iter":
		io := dbm.IterOpts{KT: dbm.KTBoth}
		if s.IO != nil {
			io = *s.IO
		}
		if io.Lower != "" && io.Upper != "" && cmpKey(io.Lower, io.Upper) >= 0 {
			io.Upper = ""
		}
		io.Mask, io.MaskF = 0, false
		state := r.latest()
		inj := r.inj
		scan, rev, iops := s.K == "scan", s.Rev, s.IOps
		res, st, detail := call(lg, func() iterRes {
			return runIter(db, state, io, scan, rev, iops, func() bool { return inj.firedTotal() > 0 })
		})
		if fl, verr := r.after(st, detail, s.K); fl != flowGo || verr != nil {
			return fl, verr
		}
		r.C["iter-ops"] += res.ops
		r.C["iter-ops-skipped"] += res.skipped
		if res.viol != nil {
			return flowGo, fmt.Errorf("%s: %v", r.where(), res.viol)
		}
		if res.readErrs > 0 {
			r.fgEffect = true
			r.label("read-error-seen")
			r.label(s.K + "-error")
			r.C["iter-read-errors"] += res.readErrs
		}
		if res.reseekOK > 0 {
			r.label("iter-reseek-after-error-ok")
		}
	case "flush":
		err, st, detail := call(lg, func() error { return db.Flush() })
		if fl, verr := r.after(st, detail, "Flush"); fl != flowGo || verr != nil {
			return fl, verr
		}
		if err != nil {
			if verr := r.fgError("Flush", err); verr != nil {
				return flowGo, verr
			}
			r.label("flush-error")
		} else {
			r.durable = len(r.versions) - 1
			r.C["flush-acked"]++
			if r.fired() {
				// A fault has fired: does the acknowledgement hold right now, before
				// later MANIFEST / WAL syncs cover up an ignored failure? Only synced
				// data survives in this image.
				if err := r.crashImagesSurv("crash image right after an acknowledged Flush", []int{0}); err != nil {
					return flowGo, err
				}
			}
		}
	case "ingest":
		return r.ingest(s)
	case "compact":
		if s.A == "" || s.B == "" || cmpKey(s.A, s.B) >= 0 {
			return flowGo, nil
		}
		a, b, par := s.A, s.B, s.Par
		err, st, detail := call(lg, func() error { return db.Compact(context.Background(), []byte(a), []byte(b), par) })
		if fl, verr := r.after(st, detail, "Compact"); fl != flowGo || verr != nil {
			return fl, verr
		}
		if err != nil {
			if verr := r.fgError("Compact", err); verr != nil {
				return flowGo, verr
			}
			r.label("compact-error")
		}
	case "wait":
		return r.wait()
	case "faultsoff":
		r.inj.disarm()
		if fl, err := r.wait(); fl != flowGo || err != nil {
			return fl, err
		}
		return r.verifyAlive("after faults-off")
	case "restart":
		return r.restart()
	case "crashcheck":
		return flowGo, r.crashImages("mid-run crash image")
	default:
		return flowGo, fmt.Errorf("harness: unknown step kind %q", s.K)
	}
	return flowGo, nil
}

// ingest writes the step's tables as external sstables (directly on the
// in-memory file system, no faults) and ingests them under the armed rules.
// An ingestion does not make earlier unsynced commits durable (and may survive
// a crash that loses them: the listed finding of C11), so the step only runs
// while the whole history is durable - the generator puts a Sync commit or a
// Flush in front of it. A successful Ingest is visible and durable; a failed
// one must leave the state before or after it (then the case ends with the
// recovery oracle, like an in-doubt commit).
func (r *runner) ingest(s Step) (flow, error) {
	var tables [][]dbm.Op
	for _, t := range s.Tables {
		seen := map[string]bool{}
		var ops []dbm.Op
		for _, o := range t {
			if (o.K == "set" || o.K == "del") && o.A != "" && !seen[o.A] {
				seen[o.A] = true
				ops = append(ops, o)
			}
		}
		if len(ops) > 0 {
			tables = append(tables, ops)
		}
	}
	// the tables of one ingestion must not overlap
	sort.Slice(tables, func(i, j int) bool { return cmpKey(tables[i][0].A, tables[j][0].A) < 0 })
	for i := range tables {
		sort.SliceStable(tables[i], func(a, b int) bool { return cmpKey(tables[i][a].A, tables[i][b].A) < 0 })
	}
	for i := 1; i < len(tables); i++ {
		prev := tables[i-1]
		if cmpKey(prev[len(prev)-1].A, tables[i][0].A) >= 0 {
			tables = tables[:i]
			break
		}
	}
	db, lg := r.db, r.lg
	// A,B: excise span (IngestAndExcise; DB.Excise when there is no table)
	exA, exB := "", ""
	if s.A != "" && s.B != "" && cmpKey(s.A, s.B) < 0 && db.FormatMajorVersion() >= pebble.FormatVirtualSSTables {
		exA, exB = s.A, s.B
	}
	if len(tables) == 0 && exA == "" {
		return flowGo, nil
	}
	if r.durable != len(r.versions)-1 {
		r.C["ingests-skipped-undurable-tail"]++
		return flowGo, nil
	}
	_ = r.mem.MkdirAll("ext", 0o755)
	var paths []string
	for _, t := range tables {
		r.extN++
		path := fmt.Sprintf("ext/%06d.sst", r.extN)
		wopts := r.opts.MakeWriterOptions(0, db.FormatMajorVersion().MaxTableFormat())
		if err := dbm.WriteSST(r.mem, path, wopts, t); err != nil {
			return flowGo, fmt.Errorf("%s: harness: writing the external table: %v", r.where(), err)
		}
		paths = append(paths, path)
	}
	next := r.latest().ApplyIngest(tables, exA, exB)
	r.pending = next
	firedBefore := r.inj.firedTotal()
	err, st, detail := call(lg, func() error {
		switch span := (pebble.KeyRange{Start: []byte(exA), End: []byte(exB)}); {
		case exA == "":
			return db.Ingest(context.Background(), paths)
		case len(paths) == 0:
			return db.Excise(context.Background(), span)
		default:
			_, err := db.IngestAndExcise(context.Background(), paths, nil, nil, span)
			return err
		}
	})
	if exA != "" {
		r.label("excise")
		r.C["excises"]++
	}
	if fl, verr := r.after(st, detail, "Ingest"); fl != flowGo || verr != nil {
		return fl, verr
	}
	r.C["ingests"]++
	if err != nil {
		if verr := r.fgError("Ingest", err); verr != nil {
			return flowGo, verr
		}
		r.label("ingest-error")
		got, fl, verr := r.dump()
		if fl != flowGo || verr != nil {
			return fl, verr
		}
		if !got.Equal(r.latest()) && !got.Equal(next) {
			return flowGo, fmt.Errorf("%s: after the failed Ingest (%v) the visible state is neither the state before nor the state after it:%s",
				r.where(), err, describeDiff(got, next))
		}
		r.gate.freeze("abandoned")
		return flowCrashed, nil
	}
	r.versions = append(r.versions, next)
	r.pending = nil
	r.durable = len(r.versions) - 1
	r.C["ingests-acked"]++
	r.label("ingest")
	if r.inj.firedTotal() > firedBefore {
		r.label("ingest-acked-with-fault-during")
		// the placement decision was taken while reads failed: the visible state
		// and the level invariants must hold right now
		if fl, verr := r.verifyAlive("right after an Ingest during which a fault fired"); fl != flowGo || verr != nil {
			return fl, verr
		}
		if err := r.crashImagesSurv("crash image right after an acknowledged Ingest", []int{0}); err != nil {
			return flowGo, err
		}
	}
	return flowGo, nil
}

// wait polls until no flush / compaction is running (bounded). It only shapes
// the exploration.
func (r *runner) wait() (flow, error) {
	db := r.db
	_, st, detail := call(r.lg, func() bool {
		quiet := 0
		for i := 0; i < 1500; i++ {
			m := db.Metrics()
			if m.Compact.NumInProgress == 0 && m.Flush.NumInProgress == 0 {
				if quiet++; quiet >= 2 {
					return true
				}
			} else {
				quiet = 0
			}
			time.Sleep(100 * time.Microsecond)
		}
		return false
	})
	return r.after(st, detail, "Metrics")
}

// verifyAlive compares the complete visible state with the model and runs
// CheckLevels; all faults are paused meanwhile.
func (r *runner) verifyAlive(when string) (flow, error) {
	got, fl, err := r.dump()
	if fl != flowGo || err != nil {
		return fl, err
	}
	if !got.Equal(r.latest()) {
		return flowGo, fmt.Errorf("%s (%s): the visible state differs from the model (faults fired so far: %d):%s", r.where(), when, r.inj.firedTotal(), describeDiff(got, r.latest()))
	}
	resume := r.inj.pause()
	defer resume()
	db := r.db
	var cerr error
	for i := 0; i < pausedRetries; i++ {
		var st int
		var detail string
		cerr, st, detail = call(r.lg, func() error { return db.CheckLevels(nil) })
		if fl, err := r.after(st, detail, "CheckLevels"); fl != flowGo || err != nil {
			return fl, err
		}
		if cerr == nil || !r.fired() {
			break
		}
		r.C["paused-read-retries"]++
	}
	if cerr != nil {
		return flowGo, fmt.Errorf("%s (%s): DB.CheckLevels with all faults paused: %v", r.where(), when, cerr)
	}
	r.C["alive-verifications"]++
	return flowGo, nil
}

func (r *runner) closeDB() (error, flow, error) {
	db := r.db
	cerr, st, detail := call(r.lg, func() error { return db.Close() })
	if fl, err := r.after(st, detail, "Close"); fl != flowGo || err != nil {
		return nil, fl, err
	}
	r.db = nil
	r.gate.freeze("closed")
	// "Close releases everything": a Close that returned nil leaves no file
	// handle of this instance open - also not one that was orphaned on an error
	// path earlier. (Not judged after a failed Open in this case - the listed
	// finding leaves background work of that instance running - nor when an
	// injected error hit a File.Close: the handle below the injector stays open
	// then although Pebble closed it.)
	if cerr == nil && len(r.failedOpens) == 0 && r.inj.closeFaultsFired() == 0 {
		r.C["close-handle-checks"]++
		if open := r.handles.names(); len(open) > 0 {
			return cerr, flowGo, fmt.Errorf("%s: DB.Close returned nil but %d file handle(s) opened by this DB instance are still open: %v (faults fired so far: %d)",
				r.where(), len(open), open, r.inj.firedTotal())
		}
	}
	return cerr, flowGo, nil
}

// restart closes and reopens the DB on the same file system while the fault
// rules stay as they are, then resolves which state was recovered.
func (r *runner) restart() (flow, error) {
	cerr, fl, err := r.closeDB()
	if fl != flowGo || err != nil {
		return fl, err
	}
	if cerr != nil {
		if verr := r.fgError("Close", cerr); verr != nil {
			return flowGo, verr
		}
		r.label("close-error")
	} else if r.walOn() {
		// a successful Close syncs the WAL: everything committed is durable.
		r.durable = len(r.versions) - 1
	}
	r.label("restart")
	if fl, err := r.open(); fl != flowGo || err != nil {
		return fl, err
	}
	got, fl, err := r.dump()
	if fl != flowGo || err != nil {
		return fl, err
	}
	k := -1
	for i := len(r.versions) - 1; i >= r.durable; i-- {
		if got.Equal(r.versions[i]) {
			k = i
			break
		}
	}
	if k < 0 {
		return flowGo, fmt.Errorf("%s: after Close (err=%v) and reopen the state is none of the %d permitted states (versions %d..%d of the history; faults fired so far: %d):%s",
			r.where(), cerr, len(r.versions)-r.durable, r.durable, len(r.versions)-1, r.inj.firedTotal(), describeDiff(got, r.latest()))
	}
	if k < len(r.versions)-1 {
		r.label("restart-lost-undurable-tail")
	}
	// the history continues from the recovered state; older versions stay
	// candidates for later crashes (whether Open made the replayed tail durable
	// is not assumed).
	r.versions = r.versions[:k+1]
	return flowGo, nil
}

func keepFn(surv int) func(string, int) bool {
	return func(path string, block int) bool {
		switch surv {
		case 0:
			return false
		case 1:
			return true
		}
		h := uint64(14695981039346656037)
		mix := func(s string) {
			for i := 0; i < len(s); i++ {
				h ^= uint64(s[i])
				h *= 1099511628211
			}
		}
		mix(path)
		mix(fmt.Sprintf("|%d|%d", block, surv))
		return h&(1<<17) != 0
	}
}

// crashImages takes one crash image of the file system per survival mode and
// applies the recovery oracle to each: Open (no faults) succeeds and the state
// is one of versions[durable:] or the pending one.
func (r *runner) crashImages(what string) error {
	survs := r.p.End.Surv
	if len(survs) == 0 {
		survs = []int{0, 1}
	}
	return r.crashImagesSurv(what, survs)
}

func (r *runner) crashImagesSurv(what string, survs []int) error {
	cands := append([]*dbm.State(nil), r.versions[r.durable:]...)
	if r.pending != nil {
		cands = append(cands, r.pending)
	}
	for _, sv := range survs {
		img := r.mem.VerifCrashClone(keepFn(sv))
		where := fmt.Sprintf("%s: %s, survival mode %d", r.where(), what, sv)
		k, err := r.checkStore(img, cands, where)
		if err != nil {
			return err
		}
		r.C["crash-images"]++
		if len(cands) > 1 {
			r.C["crash-images-ambiguous"]++
			if k < len(cands)-1 {
				r.C["crash-images-lost-undurable-tail"]++
			}
		}
	}
	r.label("crash-variant")
	return nil
}

// checkStore opens the store on fs without faults; its state must be one of
// cands; CheckLevels and Close must succeed. Returns the matching index.
func (r *runner) checkStore(fs vfs.FS, cands []*dbm.State, where string) (int, error) {
	lg := newLogger()
	ev := &events{}
	opts := buildOptions(r.p.Opt, fs, ev.listener(), lg)
	fail := func(format string, args ...any) (int, error) {
		return 0, fmt.Errorf("%s (faults fired: %d; durable version %d of %d; fatal: %q): %s", where, r.inj.firedTotal(), r.durable, len(r.versions)-1, r.lg.first(), fmt.Sprintf(format, args...))
	}
	res, st, detail := call(lg, func() openRes {
		db, err := pebble.Open("db", opts)
		return openRes{db, err}
	})
	switch st {
	case stTimeout:
		r.label("inconclusive-timeout")
		return 0, nil
	case stFatal:
		return fail("Pebble calls Fatalf while recovering without faults: %s", detail)
	case stPanic:
		return fail("panic while recovering without faults: %s", detail)
	}
	if res.err != nil {
		return fail("reopening without faults fails: %v", res.err)
	}
	db := res.db
	type chk struct {
		st        *dbm.State
		dumpErr   error
		levelsErr error
		closeErr  error
	}
	c, st, detail := call(lg, func() chk {
		var c chk
		c.st, c.dumpErr = dbm.DumpState(db)
		c.levelsErr = db.CheckLevels(nil)
		c.closeErr = db.Close()
		return c
	})
	switch st {
	case stTimeout:
		r.label("inconclusive-timeout")
		return 0, nil
	case stFatal:
		return fail("Pebble calls Fatalf on the recovered store: %s", detail)
	case stPanic:
		return fail("panic on the recovered store: %s", detail)
	}
	if c.dumpErr != nil {
		return fail("reading the recovered store fails: %v", c.dumpErr)
	}
	if c.levelsErr != nil {
		return fail("CheckLevels on the recovered store: %v", c.levelsErr)
	}
	if c.closeErr != nil {
		return fail("closing the recovered store: %v", c.closeErr)
	}
	ev.mu.Lock()
	nbg, ncor := len(ev.bgErrors), len(ev.corruptions)
	ev.mu.Unlock()
	if nbg > 0 || ncor > 0 {
		return fail("the recovered store reports background errors %v / corruption %v", ev.bgErrors, ev.corruptions)
	}
	for i := len(cands) - 1; i >= 0; i-- {
		if c.st.Equal(cands[i]) {
			return i, nil
		}
	}
	return fail("the recovered state is none of the %d permitted states (durable .. newest, in-flight commit optional):%s", len(cands), describeDiff(c.st, cands[len(cands)-1]))
}

// endAlive finishes a case whose DB survived every step.
func (r *runner) endAlive() error {
	r.stepIdx = len(r.p.Steps)
	r.inj.setStep(r.stepIdx)
	r.inj.disarm()
	if fl, err := r.wait(); fl != flowGo || err != nil {
		return r.afterFlow(fl, err)
	}
	if fl, err := r.verifyAlive("end of plan"); fl != flowGo || err != nil {
		return r.afterFlow(fl, err)
	}
	if err := r.health(); err != nil {
		return err
	}
	r.label("alive-at-end")
	if r.p.End.Crash {
		if err := r.crashImages("crash image of the live store after the faults stopped"); err != nil {
			return err
		}
	}
	cerr, fl, err := r.closeDB()
	if fl != flowGo || err != nil {
		return r.afterFlow(fl, err)
	}
	lo := r.durable
	if cerr != nil {
		// documented: Close reports the WAL writer's sticky error.
		if verr := r.fgError("final Close", cerr); verr != nil {
			return verr
		}
		r.label("close-error")
	} else if r.walOn() {
		lo = len(r.versions) - 1
	}
	k, err := r.checkStore(r.mem, r.versions[lo:], fmt.Sprintf("final Close (err=%v) and reopen", cerr))
	if err != nil {
		return err
	}
	if lo+k < len(r.versions)-1 {
		r.label("final-reopen-lost-undurable-tail")
	}
	r.C["final-reopens"]++
	return nil
}

// afterFlow ends the case after a step reported that the DB is gone.
func (r *runner) afterFlow(fl flow, err error) error {
	if err != nil {
		return err
	}
	switch fl {
	case flowCrashed:
		r.gate.freeze("abandoned")
		return r.crashImages("crash image after the DB became unusable")
	case flowInconclusive:
		return nil
	}
	return nil
}

func (r *runner) run() error {
	r.stepIdx = -1
	r.inj.setStep(-1)
	if fl, err := r.open(); fl != flowGo || err != nil {
		return r.afterFlow(fl, err)
	}
	for i, s := range r.p.Steps {
		r.stepIdx = i
		r.inj.setStep(i)
		fl, err := r.step(s)
		if fl != flowGo || err != nil {
			return r.afterFlow(fl, err)
		}
		if err := r.health(); err != nil {
			return err
		}
		if r.lg.fataled() {
			fl, err := r.after(stFatal, r.lg.first(), "background work")
			return r.afterFlow(fl, err)
		}
	}
	return r.endAlive()
}

func exec(p Plan) (evid.Outcome, error) {
	mem := vfs.NewCrashableMem()
	inj := newInjector(p.Rules)
	if !p.NoExclude {
		inj.suppress = knownFindingClass(func(sig string) bool { return evid.FindingActive("C43", sig) })
	}
	r := &runner{p: &p, mem: mem, inj: inj, ev: &events{},
		versions: []*dbm.State{dbm.NewState()}, labels: map[string]bool{}, C: map[string]int{}}
	verr := r.run()
	// whatever is left of the DB must not keep working in the background.
	if r.gate != nil {
		r.gate.freeze("end of case")
	}
	var out evid.Outcome
	// An Open that returned an error must not leave goroutines behind that keep
	// using the store (they were parked at their first file-system operation).
	for _, g := range r.failedOpens {
		// give a leaked goroutine a moment to show up (observation only: not
		// seeing one is never a verdict).
		polls := 100
		if p.NoExclude {
			polls = 4000 // demonstrations may wait up to 2 s for the evidence
		}
		for i := 0; i < polls; i++ {
			if n, _ := g.lateOps(); n > 0 || g.lg.fataled() {
				break
			}
			time.Sleep(500 * time.Microsecond)
		}
		n, ops := g.lateOps()
		if g.lg.fataled() {
			n++
			ops = append(ops, "Fatalf: "+g.lg.first())
		}
		if n > 0 {
			r.label("failed-open-left-goroutines-running")
			if p.NoExclude || !evid.FindingActive("C43", SigFailedOpenLeak) {
				if verr == nil {
					verr = fmt.Errorf("an Open that returned an error left goroutines behind that kept issuing file-system operations on the store (%d observed, first: %v)", n, ops)
				}
			} else {
				out.Excluded = SigFailedOpenLeak
			}
		}
	}
	for l := range r.labels {
		out.Labels = append(out.Labels, l)
	}
	out.Labels = append(out.Labels, inj.firedLabels()...)
	r.ev.mu.Lock()
	if r.ev.flushes > 0 {
		out.Labels = append(out.Labels, "flushed")
	}
	if r.ev.compactions > 0 {
		out.Labels = append(out.Labels, "compacted")
	}
	bg := len(r.ev.bgErrors) > 0
	r.C["bg-errors"] += len(r.ev.bgErrors)
	r.ev.mu.Unlock()
	nf := inj.firedTotal()
	r.C["faults-fired"] += nf
	switch {
	case nf == 0:
		out.Labels = append(out.Labels, "no-fault-fired")
	case !r.fgEffect && !bg:
		out.Labels = append(out.Labels, "fault-absorbed-silently")
	}
	if r.p.Opt.DisableWAL {
		out.Labels = append(out.Labels, "wal-disabled")
	}
	sort.Strings(out.Labels)
	out.Counters = r.C
	inj.mu.Lock()
	// A case that met an excluded class: the fault was withheld, everything else
	// was still checked (a violation is still reported), but the case is not
	// counted as evidence.
	for _, sig := range []string{SigCompactFirst, SigCompactSaveValue, SigFailedOpenLeak, SigBlobAbort} {
		if inj.suppressed[sig] > 0 && out.Excluded == "" {
			out.Excluded = sig
		}
	}
	inj.mu.Unlock()
	out.NonTrivial = nf > 0 && (r.fgEffect || bg) && !r.labels["inconclusive-timeout"]
	return out, verr
}

// ---------------------------------------------------------------- diff

func describeDiff(got, want *dbm.State) string {
	var b strings.Builder
	n := 0
	keys := make([]string, 0, len(want.Points))
	for k := range want.Points {
		keys = append(keys, k)
	}
	sort.Strings(keys)
	for _, k := range keys {
		v := want.Points[k]
		if gv, ok := got.Points[k]; !ok {
			fmt.Fprintf(&b, " missing %s=%s;", k, fmtVal(v))
			n++
		} else if gv != v {
			fmt.Fprintf(&b, " %s=%s want %s;", k, fmtVal(gv), fmtVal(v))
			n++
		}
		if n > 6 {
			break
		}
	}
	keys = keys[:0]
	for k := range got.Points {
		keys = append(keys, k)
	}
	sort.Strings(keys)
	for _, k := range keys {
		if _, ok := want.Points[k]; !ok {
			fmt.Fprintf(&b, " extra %s=%s;", k, fmtVal(got.Points[k]))
			n++
		}
		if n > 10 {
			break
		}
	}
	for i := range want.RK {
		if fmt.Sprint(want.RK[i]) != fmt.Sprint(got.RK[i]) {
			fmt.Fprintf(&b, " rangekeys[%s,%s) got %v want %v;", dbm.Prefixes[i], dbm.Prefixes[i+1], got.RK[i], want.RK[i])
			n++
			if n > 12 {
				break
			}
		}
	}
	if n == 0 {
		return " (no difference from the newest candidate: an older candidate was required)"
	}
	return " (vs the newest candidate)" + b.String()
}
