package fault

import (
	"testing"

	"github.com/cockroachdb/pebble/verifharness/evid"
)

func TestC43(t *testing.T) {
	evid.Run(t, evid.Spec[Plan]{
		ID: "C43", Level: "fault_enumeration",
		Rule: "rapid draws DB options (small memtables, low L0 thresholds, tiny block cache), a history of 10-30 steps (commits, gets, scans, iterator sequences, flush, compact, restart, mid-run crash images, one faults-off step) and 1-3 fault rules (op-kind group x file class; one-shot n-th matching operation or persistent window with a cap); " +
			"a real DB runs on errorfs over a crashable MemFS; every read must equal the dbm model or fail; after faults-off / a fatal error the store is reopened (clean close and deterministic crash images) and must be a state of the history not older than the last acknowledged durable write; " +
			"non-trivial = at least one fault fired AND its effect was examined (a foreground operation returned an error, Pebble called Fatalf / panicked with the injected error, or a background error was reported and the state was compared afterwards); distinct = hash of the plan JSON",
		Assumptions: []string{
			"a Logger.Fatalf is process death: the DB is abandoned (its goroutines are parked, its file system frozen) and only crash images are examined",
			"a panic whose value carries the injected error (commitWrite panics on WAL write errors) is treated like Fatalf",
			"errorfs fails an operation before it reaches the file system: partial writes are not modelled; Close is never failed (errorfs does not inject there)",
			"fault firing order depends on goroutine scheduling; every verdict is sound for every schedule, a replay may need VERIF_REPLAY_REPEAT",
		},
		Gen: genPlan, Exec: exec,
		Known: knownPlans(),
		Quick: 300, Thorough: 3000,
		Sample: func(p Plan) any { return p.Summary() },
	})
}
