package fault

import (
	"fmt"
	"strconv"

	"github.com/cockroachdb/pebble"
	"github.com/cockroachdb/pebble/verifharness/dbm"
	"pgregory.net/rapid"
)

func mkKey(prefix string, sfx int) string {
	if sfx <= 0 {
		return prefix
	}
	return prefix + "@" + strconv.Itoa(sfx)
}

type wchoice struct {
	k string
	w int
}

func pick(t *rapid.T, label string, ws []wchoice) string {
	total := 0
	for _, c := range ws {
		total += c.w
	}
	n := rapid.IntRange(0, total-1).Draw(t, label)
	for _, c := range ws {
		if n < c.w {
			return c.k
		}
		n -= c.w
	}
	return ws[len(ws)-1].k
}

type gen struct {
	t    *rapid.T
	nval int
	// written: point keys set so far (ingested tables prefer to overwrite them)
	written []string
}

func (g *gen) prefix(label string) string {
	// 70% among the first five prefixes to force overwrites / deletes of live keys
	if rapid.IntRange(0, 9).Draw(g.t, label+"hot") < 7 {
		return dbm.Prefixes[rapid.IntRange(0, 4).Draw(g.t, label)]
	}
	return dbm.Prefixes[rapid.IntRange(0, len(dbm.Prefixes)-1).Draw(g.t, label)]
}

func (g *gen) key(label string) string {
	return mkKey(g.prefix(label), rapid.IntRange(0, dbm.MaxSuffix).Draw(g.t, label+"sfx"))
}

func (g *gen) span(label string) (string, string) {
	i := rapid.IntRange(0, len(dbm.Prefixes)-2).Draw(g.t, label+"a")
	w := rapid.IntRange(1, 4).Draw(g.t, label+"w")
	j := min(i+w, len(dbm.Prefixes)-1)
	return dbm.Prefixes[i], dbm.Prefixes[j]
}

func (g *gen) value(label string) (string, int) {
	g.nval++
	tag := fmt.Sprintf("v%d", g.nval)
	vl := 0
	switch cls := rapid.IntRange(0, 19).Draw(g.t, label+"len"); {
	case cls < 5:
	case cls < 8:
		vl = rapid.IntRange(1, 40).Draw(g.t, label+"l1")
	case cls < 14:
		vl = rapid.IntRange(100, 700).Draw(g.t, label+"l2")
	case cls < 19:
		vl = rapid.IntRange(701, 3000).Draw(g.t, label+"l3")
	default:
		vl = rapid.IntRange(3001, 9000).Draw(g.t, label+"l4")
		if rapid.IntRange(0, 2).Draw(g.t, label+"huge") == 0 {
			// a WAL record spanning several 32 KiB blocks (read faults on its
			// continuation blocks during recovery are a path of their own)
			vl = rapid.IntRange(33000, 90000).Draw(g.t, label+"l5")
		}
	}
	return tag, vl
}

func (g *gen) writeOp(label string) dbm.Op {
	k := pick(g.t, label+"kind", []wchoice{{"set", 55}, {"del", 10}, {"merge", 8}, {"delrange", 7}, {"rkset", 10}, {"rkunset", 5}, {"rkdel", 5}})
	o := dbm.Op{K: k}
	switch k {
	case "set", "merge":
		o.A = g.key(label + "k")
		o.V, o.VLen = g.value(label + "v")
		g.written = append(g.written, o.A)
	case "del":
		o.A = g.key(label + "k")
	case "delrange", "rkdel":
		o.A, o.B = g.span(label + "sp")
	case "rkset":
		o.A, o.B = g.span(label + "sp")
		o.S = rapid.IntRange(1, 4).Draw(g.t, label+"rs")
		g.nval++
		o.V = fmt.Sprintf("r%d", g.nval)
	case "rkunset":
		o.A, o.B = g.span(label + "sp")
		o.S = rapid.IntRange(1, 4).Draw(g.t, label+"rs")
	}
	return o
}

// tables draws 1-2 small disjoint tables of point sets / deletes, each inside a
// window of one or two prefixes: narrow enough to be enclosed by the bounds of
// an existing table, which makes the ingestion probe that table's data for
// overlap (reads that the armed rules can fail).
func (g *gen) tables(label string) [][]dbm.Op {
	nt := rapid.IntRange(1, 2).Draw(g.t, label+"nt")
	lo := 0
	var out [][]dbm.Op
	for i := 0; i < nt && lo < len(dbm.Prefixes); i++ {
		l := fmt.Sprintf("%st%d", label, i)
		a := rapid.IntRange(lo, min(lo+5, len(dbm.Prefixes)-1)).Draw(g.t, l+"a")
		b := min(a+rapid.IntRange(0, 1).Draw(g.t, l+"w"), len(dbm.Prefixes)-1)
		var ops []dbm.Op
		seen := map[string]bool{}
		for j, m := 0, rapid.IntRange(1, 3).Draw(g.t, l+"n"); j < m; j++ {
			k := mkKey(dbm.Prefixes[rapid.IntRange(a, b).Draw(g.t, fmt.Sprintf("%sp%d", l, j))], rapid.IntRange(0, dbm.MaxSuffix).Draw(g.t, fmt.Sprintf("%ss%d", l, j)))
			if i == 0 && len(g.written) > 0 && rapid.Bool().Draw(g.t, fmt.Sprintf("%sw%d", l, j)) {
				// overwrite a key that exists (the first table only: the tables of
				// one ingestion stay disjoint because lo moves past it)
				// mostly a recently written one (likely still in L0 or a memtable)
				w := g.written
				if len(w) > 6 && rapid.IntRange(0, 2).Draw(g.t, fmt.Sprintf("%swr%d", l, j)) > 0 {
					w = w[len(w)-6:]
				}
				k = rapid.SampledFrom(w).Draw(g.t, fmt.Sprintf("%swk%d", l, j))
			}
			if seen[k] {
				continue
			}
			seen[k] = true
			o := dbm.Op{K: "set", A: k}
			if rapid.IntRange(0, 4).Draw(g.t, fmt.Sprintf("%sd%d", l, j)) == 0 {
				o.K = "del"
			} else {
				o.V, o.VLen = g.value(fmt.Sprintf("%sv%d", l, j))
			}
			ops = append(ops, o)
		}
		out = append(out, ops)
		lo = b + 1
		for _, o := range ops {
			pi := 0
			for q, pre := range dbm.Prefixes {
				if splitPrefix(o.A) == pre {
					pi = q
				}
			}
			lo = max(lo, pi+1)
		}
	}
	return out
}

func (g *gen) iterOpts(label string) dbm.IterOpts {
	o := dbm.IterOpts{KT: rapid.SampledFrom([]int{dbm.KTBoth, dbm.KTPoints, dbm.KTBoth, dbm.KTRanges}).Draw(g.t, label+"kt")}
	bk := func(l string) string {
		if rapid.IntRange(0, 4).Draw(g.t, l+"sfxd") == 0 {
			return g.key(l)
		}
		return g.prefix(l)
	}
	switch rapid.IntRange(0, 5).Draw(g.t, label+"bounds") {
	case 0, 1, 2:
	case 3:
		o.Lower = bk(label + "lo")
	case 4:
		o.Upper = bk(label + "hi")
	default:
		a, b := bk(label+"lo"), bk(label+"hi")
		if c := cmpKey(a, b); c > 0 {
			a, b = b, a
		} else if c == 0 {
			b = ""
		}
		o.Lower, o.Upper = a, b
	}
	return o
}

func (g *gen) iterOps(label string, n int, prefixOK bool) []dbm.IterOp {
	var ops []dbm.IterOp
	for i := 0; i < n; i++ {
		l := fmt.Sprintf("%s%d", label, i)
		ws := []wchoice{{"next", 30}, {"prev", 20}, {"seekge", 14}, {"seeklt", 10}, {"first", 5}, {"last", 5}, {"seekprefixge", 8}}
		if i == 0 {
			ws[0].w, ws[1].w = 0, 0
		}
		if !prefixOK {
			ws[6].w = 0
		}
		op := dbm.IterOp{Op: pick(g.t, l+"op", ws)}
		switch op.Op {
		case "seekge", "seeklt", "seekprefixge":
			op.Key = g.key(l + "k")
		}
		ops = append(ops, op)
	}
	return ops
}

// tweakOptions forces the regime the fault plan needs: small memtables and low
// L0 thresholds (flushes and compactions happen within a few steps), a tiny
// block cache (reads reach the file system), WAL mostly enabled, value
// separation in a minority of cases, no DebugCheckLevels (it calls Fatalf when
// it hits an error, which an injected read error would trigger by design).
func tweakOptions(t *rapid.T, o *dbm.OptPlan) {
	o.MemTableSize = rapid.SampledFrom([]int{4 << 10, 8 << 10, 16 << 10, 32 << 10}).Draw(t, "fmem")
	o.L0Compaction = rapid.IntRange(1, 2).Draw(t, "fl0c")
	o.L0CompactionFiles = rapid.SampledFrom([]int{1, 2, 4}).Draw(t, "fl0f")
	o.DisableWAL = rapid.IntRange(0, 9).Draw(t, "fnowal") == 0
	if o.ValSep && rapid.IntRange(0, 2).Draw(t, "fvalsep") == 0 {
		o.ValSep = false
	}
	o.CacheSize = rapid.SampledFrom([]int64{1 << 10, 1 << 10, 64 << 10}).Draw(t, "fcache")
	o.CheckLevels = false
	o.FilesCheck = false
	// Sometimes only manual compactions: flushed tables pile up in L0 (and stay
	// where a manual compaction put them), so reads, ingestion overlap probes
	// and excises work on a multi-level LSM instead of a single L6 run.
	o.DisableAutoCompaction = rapid.IntRange(0, 3).Draw(t, "fnoauto") == 0
}

// ruleMotifs are (kinds, classes, needs-restart) combinations that hit the
// error paths the property is anchored in; the rest is drawn freely.
var ruleMotifs = []struct {
	kinds, classes []string
	restart        bool
	w              int
}{
	{[]string{"read"}, []string{"sst"}, false, 16},
	{[]string{"read"}, []string{"sst", "blob"}, false, 5},
	{[]string{"open"}, []string{"sst", "blob"}, false, 5},
	{[]string{"write"}, []string{"sst"}, false, 8},
	{[]string{"sync"}, []string{"sst", "blob"}, false, 6},
	{[]string{"create"}, []string{"sst", "blob"}, false, 5},
	{[]string{"write"}, []string{"wal"}, false, 10},
	{[]string{"sync"}, []string{"wal"}, false, 8},
	{[]string{"create"}, []string{"wal"}, false, 4},
	{[]string{"write"}, []string{"manifest"}, false, 5},
	{[]string{"sync"}, []string{"manifest"}, false, 6},
	{[]string{"read", "open"}, []string{"blob"}, false, 6},
	{[]string{"write", "sync", "create"}, []string{"blob"}, false, 6},
	{[]string{"dirsync"}, nil, false, 5},
	{[]string{"meta"}, nil, false, 6},
	{[]string{"read"}, []string{"wal"}, true, 6},
	{[]string{"read", "open"}, []string{"manifest", "marker", "options"}, true, 5},
	{[]string{"create", "write", "sync", "meta"}, []string{"manifest", "marker", "options", "temp"}, true, 5},
	{[]string{"other"}, nil, false, 2},
}

func (g *gen) rule(label string, nsteps, offAt, setup int) (Rule, bool) {
	var r Rule
	restart := false
	if rapid.IntRange(0, 9).Draw(g.t, label+"free") < 8 {
		total := 0
		for _, m := range ruleMotifs {
			total += m.w
		}
		n := rapid.IntRange(0, total-1).Draw(g.t, label+"motif")
		for _, m := range ruleMotifs {
			if n < m.w {
				r.Kinds, r.Classes, restart = m.kinds, m.classes, m.restart
				break
			}
			n -= m.w
		}
	} else {
		r.Kinds = rapid.SliceOfNDistinct(rapid.SampledFrom(allKinds), 1, 3, rapid.ID[string]).Draw(g.t, label+"kinds")
		if rapid.Bool().Draw(g.t, label+"anycls") {
			r.Classes = nil
		} else {
			r.Classes = rapid.SliceOfNDistinct(rapid.SampledFrom(allClasses), 1, 3, rapid.ID[string]).Draw(g.t, label+"classes")
		}
	}
	// armed from a step before faults-off; rarely from the very first Open on.
	hi := max(0, offAt-1)
	lo := min(setup+1, hi)
	if rapid.IntRange(0, 2).Draw(g.t, label+"early") > 0 {
		// mostly armed early, so that many steps run under the rule
		hi = max(lo, (lo+hi)/2)
	}
	r.From = rapid.IntRange(lo, hi).Draw(g.t, label+"from")
	if rapid.IntRange(0, 19).Draw(g.t, label+"open0") == 0 {
		r.From = -1
	}
	if rapid.IntRange(0, 9).Draw(g.t, label+"persistent") < 3 {
		r.To = rapid.IntRange(max(r.From, 0), nsteps).Draw(g.t, label+"to")
		r.Max = rapid.SampledFrom([]int{2, 3, 5, 8, 20}).Draw(g.t, label+"max")
	} else {
		r.Nth = rapid.SampledFrom([]int{1, 1, 1, 2, 2, 3, 3, 4, 6, 9}).Draw(g.t, label+"nth")
	}
	return r, restart
}

func readish(r Rule) bool {
	if !contains(r.Kinds, "read") && !contains(r.Kinds, "open") {
		return false
	}
	return len(r.Classes) == 0 || contains(r.Classes, "sst") || contains(r.Classes, "blob")
}

func genPlan(t *rapid.T) Plan {
	g := &gen{t: t}
	var p Plan
	p.Opt = dbm.GenOptions(t, dbm.Profile{Name: "C43", Opt: tweakOptions})
	n := rapid.IntRange(12, 30).Draw(t, "nsteps")
	// faults-off position: the step index at which the "faultsoff" step sits.
	offAt := rapid.IntRange(n*6/10, n-1).Draw(t, "offat")
	// setup prefix: a few commits, mostly ending in a flush, so that tables exist
	// before the first rule is armed.
	setup := rapid.IntRange(2, 4).Draw(t, "setup")
	nr := rapid.SampledFrom([]int{1, 1, 2, 2, 2, 3}).Draw(t, "nrules")
	type ruleInfo struct {
		r       Rule
		restart bool
	}
	var rules []ruleInfo
	for i := 0; i < nr; i++ {
		l := fmt.Sprintf("r%d", i)
		r, restart := g.rule(l, n, offAt, setup)
		if len(r.Classes) == 1 && r.Classes[0] == "blob" && !p.Opt.ValSep {
			// no blob files without value separation: enable it where the format
			// version allows, otherwise aim at the tables instead.
			if p.Opt.FMV >= int(pebble.FormatValueSeparation) {
				p.Opt.ValSep, p.Opt.ValSepMinSize, p.Opt.ValSepDepth, p.Opt.ValSepGarbageLow = true, 32, 2, 30
			} else {
				r.Classes = []string{"sst"}
			}
		}
		if len(r.Classes) == 1 && r.Classes[0] == "manifest" && contains(r.Kinds, "sync") && rapid.Bool().Draw(t, l+"nowal") {
			// Without a WAL the MANIFEST is the only thing that makes a flush durable
			// (with a WAL, rotating it at the flush has already synced every commit).
			p.Opt.DisableWAL = true
		}
		rules = append(rules, ruleInfo{r, restart})
		p.Rules = append(p.Rules, r)
	}
	for i := 0; i < n; i++ {
		l := fmt.Sprintf("s%d", i)
		if i == offAt {
			p.Steps = append(p.Steps, Step{K: "faultsoff"})
			continue
		}
		ws := []wchoice{{"write", 32}, {"batch", 14}, {"get", 12}, {"scan", 8}, {"iter", 7}, {"flush", 9}, {"compact", 5}, {"wait", 3}, {"restart", 4}, {"crashcheck", 3}, {"ingest", 5}}
		switch {
		case i < setup:
			ws = []wchoice{{"write", 10}, {"batch", 30}}
		case i == setup:
			ws = []wchoice{{"flush", 80}, {"batch", 20}}
		default:
			for _, ri := range rules {
				// reads right after a read rule is armed (the block cache is tiny:
				// they reach the file system)
				if readish(ri.r) && i >= ri.r.From && i <= ri.r.From+5 {
					ws[2].w, ws[3].w, ws[4].w = 30, 22, 18
				}
			}
		}
		s := Step{K: pick(t, l+"kind", ws)}
		switch s.K {
		case "write":
			s.Ops = []dbm.Op{g.writeOp(l)}
			s.Sync = rapid.IntRange(0, 99).Draw(t, l+"sync") < 35
		case "batch":
			s.K = "write"
			for j, m := 0, rapid.IntRange(2, 6).Draw(t, l+"n"); j < m; j++ {
				s.Ops = append(s.Ops, g.writeOp(fmt.Sprintf("%sb%d", l, j)))
			}
			s.Sync = rapid.IntRange(0, 99).Draw(t, l+"sync") < 35
		case "get":
			s.A = g.key(l + "k")
		case "scan":
			o := g.iterOpts(l + "o")
			s.IO = &o
			s.Rev = rapid.Bool().Draw(t, l+"rev")
		case "iter":
			o := g.iterOpts(l + "o")
			s.IO = &o
			s.IOps = g.iterOps(l+"i", rapid.IntRange(2, 10).Draw(t, l+"nops"), o.Lower == "" && o.Upper == "")
		case "ingest":
			s.Tables = g.tables(l)
			if rapid.IntRange(0, 9).Draw(t, l+"ex") < 4 {
				// with an excise span; sometimes a pure DB.Excise
				s.A, s.B = g.span(l + "exsp")
				if rapid.IntRange(0, 9).Draw(t, l+"exonly") < 3 {
					s.Tables = nil
				}
			}
			// everything before an ingestion is made durable first (see exec)
			if len(p.Steps) > 0 && i-1 != offAt && i-1 > setup {
				if p.Opt.DisableWAL || rapid.Bool().Draw(t, l+"preflush") {
					p.Steps[len(p.Steps)-1] = Step{K: "flush"}
				} else {
					p.Steps[len(p.Steps)-1] = Step{K: "write", Sync: true, Ops: []dbm.Op{g.writeOp(l + "pre")}}
				}
			}
		case "compact":
			s.A, s.B = g.span(l + "sp")
			if rapid.Bool().Draw(t, l+"whole") {
				s.A, s.B = dbm.Prefixes[0], "z"
			}
			s.Par = rapid.Bool().Draw(t, l+"par")
		}
		p.Steps = append(p.Steps, s)
	}
	// Read rules are often armed exactly at an ingestion / excise: its overlap
	// probes and bound computations then hit the fault, not a later read.
	var ingestAt []int
	for j, st := range p.Steps {
		if st.K == "ingest" && j < offAt {
			ingestAt = append(ingestAt, j)
		}
	}
	for i := range rules {
		r := &p.Rules[i]
		if len(ingestAt) > 0 && !rules[i].restart && contains(r.Kinds, "read") && (len(r.Classes) == 0 || contains(r.Classes, "sst")) &&
			rapid.IntRange(0, 9).Draw(t, fmt.Sprintf("r%dating", i)) < 6 {
			r.From = rapid.SampledFrom(ingestAt).Draw(t, fmt.Sprintf("r%datingj", i))
			if r.Nth > 0 {
				r.Nth = rapid.SampledFrom([]int{1, 1, 1, 2, 2, 3, 4, 6}).Draw(t, fmt.Sprintf("r%datingn", i))
			} else if r.To < r.From {
				r.To = r.From
			}
		}
	}
	for i, ri := range rules {
		if !ri.restart {
			continue
		}
		// the rule only matters when the store is reopened while it is armed:
		// turn one step of its window into a restart.
		r := ri.r
		lo := max(r.From, 0)
		hi := offAt - 1
		if r.Nth == 0 && r.To < hi {
			hi = max(r.To, lo)
		}
		if lo <= hi {
			j := rapid.IntRange(lo, hi).Draw(t, fmt.Sprintf("r%drestartat", i))
			if p.Steps[j].K != "faultsoff" {
				p.Steps[j] = Step{K: "restart"}
				// Reads of the WAL during recovery: make sure (half of the time) that
				// the log to be replayed holds an acknowledged record spanning several
				// 32 KiB blocks, whose continuation blocks are read separately.
				if len(r.Classes) == 1 && r.Classes[0] == "wal" && j > 0 && p.Steps[j-1].K != "faultsoff" && p.Steps[j-1].K != "restart" &&
					rapid.Bool().Draw(t, fmt.Sprintf("r%dbigrec", i)) {
					p.Steps[j-1] = Step{K: "write", Sync: true, Ops: []dbm.Op{{K: "set",
						A:    dbm.Prefixes[rapid.IntRange(0, len(dbm.Prefixes)-1).Draw(t, fmt.Sprintf("r%dbigk", i))],
						V:    fmt.Sprintf("vh%d", i),
						VLen: rapid.IntRange(33000, 120000).Draw(t, fmt.Sprintf("r%dbigl", i))}}}
					// large enough that the record is not flushed (and its WAL
					// made obsolete) before the restart
					p.Opt.MemTableSize = 512 << 10
				}
			}
		}
	}
	// Probe motif: a table holding several keys is flushed and stays in L0 (no
	// automatic compactions), the store is (sometimes) reopened so that nothing
	// of it is cached, and a table with one key strictly inside its bounds is
	// ingested (or a span inside its bounds excised) while a one-shot read rule
	// is armed: the fault hits the reads that decide the target level / the
	// bounds of what remains.
	if offAt-(setup+1) >= 5 && rapid.IntRange(0, 11).Draw(t, "probemotif") == 0 {
		j := rapid.IntRange(setup+1, offAt-4).Draw(t, "probeat")
		np := rapid.IntRange(3, 6).Draw(t, "probenp")
		p0 := rapid.IntRange(0, len(dbm.Prefixes)-np).Draw(t, "probep0")
		var ops []dbm.Op
		for q := 0; q < np; q++ {
			tag, vl := g.value(fmt.Sprintf("probev%d", q))
			ops = append(ops, dbm.Op{K: "set", A: mkKey(dbm.Prefixes[p0+q], rapid.IntRange(0, dbm.MaxSuffix).Draw(t, fmt.Sprintf("probes%d", q))), V: tag, VLen: vl})
		}
		mid := ops[rapid.IntRange(1, np-2).Draw(t, "probemid")]
		p.Steps[j] = Step{K: "write", Sync: true, Ops: ops}
		p.Steps[j+1] = Step{K: "flush"}
		p.Steps[j+2] = Step{K: rapid.SampledFrom([]string{"restart", "wait", "get"}).Draw(t, "probecold"), A: ops[0].A}
		if rapid.IntRange(0, 3).Draw(t, "probeex") == 0 {
			// the span of the middle key's prefix: [prefix, next prefix)
			pi := 0
			for q, pre := range dbm.Prefixes {
				if pre == splitPrefix(mid.A) {
					pi = q
				}
			}
			p.Steps[j+3] = Step{K: "ingest", A: dbm.Prefixes[pi], B: dbm.Prefixes[pi+1]}
		} else {
			g.nval++
			p.Steps[j+3] = Step{K: "ingest", Tables: [][]dbm.Op{{{K: "set", A: mid.A, V: fmt.Sprintf("v%d", g.nval)}}}}
		}
		p.Opt.DisableAutoCompaction = true
		p.Rules[0] = Rule{Kinds: []string{"read"}, Classes: []string{"sst"}, From: j + 3, Nth: rapid.IntRange(1, 6).Draw(t, "proben")}
		if len(p.Steps[j+3].Tables) > 0 && rapid.IntRange(0, 2).Draw(t, "probelink") == 0 {
			// Two cooperating faults in one ingestion: the hard link into the store
			// fails, which makes the provider fall back to copying the file, and one
			// operation of that copy (read of the source, write or sync of the
			// destination) fails too.
			p.Rules[0] = Rule{Kinds: []string{"meta"}, From: j + 3, Nth: 1}
			second := Rule{Kinds: []string{rapid.SampledFrom([]string{"write", "sync", "read"}).Draw(t, "probelinkk")},
				Classes: []string{"sst", "ext"}, From: j + 3, Nth: rapid.IntRange(1, 2).Draw(t, "probelinkn")}
			if len(p.Rules) >= 2 {
				p.Rules[1] = second
			} else {
				p.Rules = append(p.Rules, second)
			}
		}
	}
	p.End.Crash = rapid.IntRange(0, 9).Draw(t, "endcrash") < 4
	p.End.Surv = []int{0, 1, rapid.IntRange(2, 1000).Draw(t, "surv")}
	return p
}
