package fault

import (
	"fmt"
	"runtime"
	"sort"
	"strings"
	"sync"
	"sync/atomic"

	"github.com/cockroachdb/pebble/vfs/errorfs"
)

// ---------------------------------------------------------------- classification

// Op-kind groups a rule can name.
var allKinds = []string{"read", "write", "sync", "dirsync", "create", "open", "meta", "other"}

// File classes a rule can name (by path, like dbm/crash.go fileClass).
var allClasses = []string{"wal", "manifest", "marker", "options", "sst", "blob", "temp", "dir", "other"}

func fileClass(path string) string {
	base := path
	if i := strings.LastIndexByte(path, '/'); i >= 0 {
		base = path[i+1:]
	}
	switch {
	case strings.HasSuffix(base, ".log"):
		return "wal"
	case strings.HasPrefix(base, "MANIFEST"):
		return "manifest"
	case strings.HasPrefix(base, "marker."):
		return "marker"
	case strings.HasPrefix(base, "OPTIONS"):
		return "options"
	case strings.HasSuffix(base, ".sst"):
		return "sst"
	case strings.HasSuffix(base, ".blob"):
		return "blob"
	case strings.HasPrefix(base, "temporary."), strings.HasSuffix(base, ".dbtmp"):
		return "temp"
	case base == "LOCK":
		return "other"
	case !strings.Contains(base, "."):
		return "dir"
	}
	return "other"
}

func opKind(k errorfs.OpKind, class string) string {
	switch k {
	case errorfs.OpFileRead, errorfs.OpFileReadAt:
		return "read"
	case errorfs.OpFileWrite, errorfs.OpFileWriteAt:
		return "write"
	case errorfs.OpFileSync, errorfs.OpFileSyncData, errorfs.OpFileSyncTo, errorfs.OpFileFlush:
		if class == "dir" {
			return "dirsync"
		}
		return "sync"
	case errorfs.OpCreate, errorfs.OpReuseForWrite:
		return "create"
	case errorfs.OpOpen, errorfs.OpOpenDir:
		return "open"
	case errorfs.OpRename, errorfs.OpRemove, errorfs.OpLink, errorfs.OpRemoveAll, errorfs.OpMkdirAll:
		return "meta"
	}
	return "other" // stat, list, lock, disk usage, preallocate
}

// ---------------------------------------------------------------- rules

// Rule is one fault rule. It matches FS operations whose kind group is in Kinds
// and whose file class is in Classes (empty = every class), issued while the
// executor's step index is >= From (-1 = from the very first Open on).
//
//	Nth > 0: one-shot - the Nth matching operation fails, nothing else.
//	Nth == 0: persistent - every matching operation fails while the step index
//	          is <= To, at most Max times in total (so that retry loops inside
//	          Pebble always terminate).
type Rule struct {
	Kinds   []string `json:"kinds"`
	Classes []string `json:"classes,omitempty"`
	From    int      `json:"from"`
	To      int      `json:"to,omitempty"`
	Nth     int      `json:"nth,omitempty"`
	Max     int      `json:"max,omitempty"`
}

func (r Rule) String() string {
	cls := "any"
	if len(r.Classes) > 0 {
		cls = strings.Join(r.Classes, "+")
	}
	if r.Nth > 0 {
		return fmt.Sprintf("fail %s of %s: matching op #%d from step %d", strings.Join(r.Kinds, "+"), cls, r.Nth, r.From)
	}
	return fmt.Sprintf("fail %s of %s: every op in steps [%d,%d], at most %d", strings.Join(r.Kinds, "+"), cls, r.From, r.To, r.Max)
}

func contains(l []string, s string) bool {
	for _, x := range l {
		if x == s {
			return true
		}
	}
	return false
}

type ruleState struct {
	seen  int
	fired int
}

// injector decides, for every FS operation of the DB under test, whether it
// fails. Decisions are a pure function of the rules, the per-rule counters and
// the current step index.
type injector struct {
	rules []Rule

	mu     sync.Mutex
	st     []ruleState
	step   int
	paused bool
	off    bool
	total  int
	fired  map[string]int // "class:kind" -> count
	ops    int

	// suppress, if set, is consulted when a fault is about to fire; if it returns
	// true the fault does not happen (known-finding classes excluded by
	// construction); suppressed counts them.
	suppress   func() string
	suppressed map[string]int

	// frozen: the DB was abandoned (Fatalf / foreground panic / watchdog): every
	// further FS operation of its goroutines blocks forever, which is the closest
	// in-process approximation of "the process is gone".
	frozen atomic.Bool
}

// debugFire, if set, is called (with the injector locked) whenever a fault fires.
var debugFire func(op errorfs.Op)

func newInjector(rules []Rule) *injector {
	return &injector{rules: rules, st: make([]ruleState, len(rules)), fired: map[string]int{}, step: -1}
}

func (in *injector) String() string { return "fault-plan injector" }

func (in *injector) MaybeError(op errorfs.Op) error {
	if in.frozen.Load() {
		select {}
	}
	cls := fileClass(op.Path)
	kind := opKind(op.Kind, cls)
	in.mu.Lock()
	defer in.mu.Unlock()
	in.ops++
	if in.off || in.paused {
		return nil
	}
	fire := false
	for i := range in.rules {
		r := &in.rules[i]
		if in.step < r.From || !contains(r.Kinds, kind) || (len(r.Classes) > 0 && !contains(r.Classes, cls)) {
			continue
		}
		s := &in.st[i]
		if r.Nth > 0 {
			s.seen++
			if s.seen == r.Nth {
				s.fired++
				fire = true
			}
			continue
		}
		if in.step > r.To || s.fired >= r.Max {
			continue
		}
		s.fired++
		fire = true
	}
	if !fire {
		return nil
	}
	if in.suppress != nil {
		if sig := in.suppress(); sig != "" {
			if in.suppressed == nil {
				in.suppressed = map[string]int{}
			}
			in.suppressed[sig]++
			return nil
		}
	}
	in.total++
	in.fired[cls+":"+kind]++
	if debugFire != nil {
		debugFire(op)
	}
	return errorfs.ErrInjected
}

func (in *injector) setStep(i int) {
	in.mu.Lock()
	in.step = i
	in.mu.Unlock()
}

// pause suspends all rules (and their counters) and returns the function that
// resumes them; used for the oracle's own probes.
func (in *injector) pause() func() {
	in.mu.Lock()
	was := in.paused
	in.paused = true
	in.mu.Unlock()
	return func() {
		in.mu.Lock()
		in.paused = was
		in.mu.Unlock()
	}
}

func (in *injector) disarm() {
	in.mu.Lock()
	in.off = true
	in.mu.Unlock()
}

func (in *injector) firedTotal() int {
	in.mu.Lock()
	defer in.mu.Unlock()
	return in.total
}

func (in *injector) firedLabels() []string {
	in.mu.Lock()
	defer in.mu.Unlock()
	var l []string
	for k := range in.fired {
		l = append(l, "fault-fired="+k)
	}
	sort.Strings(l)
	return l
}

func (in *injector) freeze() { in.frozen.Store(true) }

// SigCompactFirst is the signature of the candidate finding: a read error met
// while a compaction positions its range-key / range-deletion input iterators
// for the first time (compact.(*Iter).First -> keyspan.InterleavingIter.First ->
// keyspanimpl.{MergingIter,LevelIter}.First) is swallowed; the compaction sees
// an empty input, succeeds, and its input tables are deleted.
const SigCompactFirst = "compaction-first-positioning-keyspan-read-error-swallowed"

// SigCompactSaveValue is the signature of the candidate finding: an error met
// by compact.(*Iter).saveValue (fetching a value from a value block) is stored
// in Iter.err, but if the saved key is the last one of the compaction input the
// following iterNext overwrites it with iter.Error() == nil; the key is written
// with an empty value. The excluded class is "a fault fires inside saveValue"
// (whether the key is the last one cannot be known at that point).
const SigCompactSaveValue = "compaction-savevalue-error-overwritten-at-end-of-input"

// knownFindingClass classifies the calling goroutine's stack: it returns the
// signature of the known-finding class a fault fired now would belong to
// (active reports whether a signature is listed), or "".
func knownFindingClass(active func(sig string) bool) func() string {
	first, save := active(SigCompactFirst), active(SigCompactSaveValue)
	if !first && !save {
		return nil
	}
	return func() string {
		pcs := make([]uintptr, 96)
		n := runtime.Callers(2, pcs)
		frames := runtime.CallersFrames(pcs[:n])
		inFirst, inKeyspan, inSave := false, false, false
		for {
			f, more := frames.Next()
			switch {
			case strings.HasSuffix(f.Function, "/internal/compact.(*Iter).First"):
				inFirst = true
			case strings.HasSuffix(f.Function, "/internal/compact.(*Iter).saveValue"):
				inSave = true
			case strings.Contains(f.Function, "/internal/keyspan/keyspanimpl."):
				inKeyspan = true
			}
			if !more {
				break
			}
		}
		switch {
		case save && inSave:
			return SigCompactSaveValue
		case first && inFirst && inKeyspan:
			return SigCompactFirst
		}
		return ""
	}
}
