package fault

import (
	"fmt"
	"runtime"
	"sort"
	"strings"
	"sync"
	"sync/atomic"

	"github.com/cockroachdb/pebble/vfs/errorfs"
)

// ---------------------------------------------------------------- classification

// Op-kind groups a rule can name.
var allKinds = []string{"read", "write", "sync", "dirsync", "create", "open", "meta", "other"}

// File classes a rule can name (by path, like dbm/crash.go fileClass).
// "ext" are the external sstables of an ingestion before they are linked into
// the store (so that "sst" rules hit the store's own tables).
var allClasses = []string{"wal", "manifest", "marker", "options", "sst", "blob", "temp", "dir", "other", "ext"}

func fileClass(path string) string {
	base := path
	if i := strings.LastIndexByte(path, '/'); i >= 0 {
		base = path[i+1:]
	}
	switch {
	case strings.HasPrefix(path, "ext/") && base != "ext":
		return "ext"
	case strings.HasSuffix(base, ".log"):
		return "wal"
	case strings.HasPrefix(base, "MANIFEST"):
		return "manifest"
	case strings.HasPrefix(base, "marker."):
		return "marker"
	case strings.HasPrefix(base, "OPTIONS"):
		return "options"
	case strings.HasSuffix(base, ".sst"):
		return "sst"
	case strings.HasSuffix(base, ".blob"):
		return "blob"
	case strings.HasPrefix(base, "temporary."), strings.HasSuffix(base, ".dbtmp"):
		return "temp"
	case base == "LOCK":
		return "other"
	case !strings.Contains(base, "."):
		return "dir"
	}
	return "other"
}

func opKind(k errorfs.OpKind, class string) string {
	switch k {
	case errorfs.OpFileRead, errorfs.OpFileReadAt:
		return "read"
	case errorfs.OpFileWrite, errorfs.OpFileWriteAt:
		return "write"
	case errorfs.OpFileSync, errorfs.OpFileSyncData, errorfs.OpFileSyncTo, errorfs.OpFileFlush:
		if class == "dir" {
			return "dirsync"
		}
		return "sync"
	case errorfs.OpCreate, errorfs.OpReuseForWrite:
		return "create"
	case errorfs.OpOpen, errorfs.OpOpenDir:
		return "open"
	case errorfs.OpRename, errorfs.OpRemove, errorfs.OpLink, errorfs.OpRemoveAll, errorfs.OpMkdirAll:
		return "meta"
	}
	return "other" // stat, list, lock, disk usage, preallocate
}

// ---------------------------------------------------------------- rules

// Rule is one fault rule. It matches FS operations whose kind group is in Kinds
// and whose file class is in Classes (empty = every class), issued while the
// executor's step index is >= From (-1 = from the very first Open on).
//
//	Nth > 0: one-shot - the Nth matching operation fails, nothing else.
//	Nth == 0: persistent - every matching operation fails while the step index
//	          is <= To, at most Max times in total (so that retry loops inside
//	          Pebble always terminate).
type Rule struct {
	Kinds   []string `json:"kinds"`
	Classes []string `json:"classes,omitempty"`
	From    int      `json:"from"`
	To      int      `json:"to,omitempty"`
	Nth     int      `json:"nth,omitempty"`
	Max     int      `json:"max,omitempty"`
}

func (r Rule) String() string {
	cls := "any"
	if len(r.Classes) > 0 {
		cls = strings.Join(r.Classes, "+")
	}
	if r.Nth > 0 {
		return fmt.Sprintf("fail %s of %s: matching op #%d from step %d", strings.Join(r.Kinds, "+"), cls, r.Nth, r.From)
	}
	return fmt.Sprintf("fail %s of %s: every op in steps [%d,%d], at most %d", strings.Join(r.Kinds, "+"), cls, r.From, r.To, r.Max)
}

func contains(l []string, s string) bool {
	for _, x := range l {
		if x == s {
			return true
		}
	}
	return false
}

func (in *injector) closeFaultsFired() int {
	in.mu.Lock()
	defer in.mu.Unlock()
	return in.closeFaults
}

type ruleState struct {
	seen  int
	fired int
}

// injector decides, for every FS operation of the DB under test, whether it
// fails. Decisions are a pure function of the rules, the per-rule counters and
// the current step index.
type injector struct {
	rules []Rule

	mu     sync.Mutex
	st     []ruleState
	step   int
	paused bool
	off    bool
	total  int
	fired  map[string]int // "class:kind" -> count
	ops    int
	// closeFaults: injected errors on File.Close (the handle below errorfs then
	// stays open although Pebble closed it)
	closeFaults int

	// suppress, if set, is consulted when a fault is about to fire; if it returns
	// true the fault does not happen (known-finding classes excluded by
	// construction); suppressed counts them.
	suppress   func() string
	suppressed map[string]int
}

// gate sits between one DB instance (one pebble.Open call) and the injector.
// Once frozen - the instance was abandoned after Fatalf / a foreground panic /
// the watchdog, its Open returned an error, or it was closed - every further
// file-system operation of the instance's goroutines is recorded and parked
// forever: the closest in-process approximation of "that process is gone", and
// the guarantee that a dead instance never touches the files of its successor.
type gate struct {
	in     *injector
	lg     *recLogger
	frozen atomic.Bool
	why    string
	mu     sync.Mutex
	late   []string
	nlate  int
}

func (g *gate) String() string { return "fault-plan gate" }

func (g *gate) MaybeError(op errorfs.Op) error {
	if g.frozen.Load() {
		g.mu.Lock()
		g.nlate++
		if len(g.late) < 6 {
			g.late = append(g.late, fmt.Sprintf("%v %s", op.Kind, op.Path))
		}
		g.mu.Unlock()
		select {}
	}
	err := g.in.MaybeError(op)
	if err != nil && op.Kind == errorfs.OpFileSync && inAtomicMarker() {
		// atomicfs.Marker panics deliberately when the directory fsync fails
		// ("fsync errors are unrecoverable"), on whatever goroutine it runs: that is
		// process death by design, modelled exactly like Logger.Fatalf (recorded,
		// goroutine parked, crash images examined).
		g.lg.Fatalf("directory fsync failed inside atomicfs.Marker, where Pebble panics by design: %v", err)
	}
	return err
}

func inAtomicMarker() bool {
	pcs := make([]uintptr, 16)
	n := runtime.Callers(3, pcs)
	frames := runtime.CallersFrames(pcs[:n])
	for {
		f, more := frames.Next()
		if strings.Contains(f.Function, "/vfs/atomicfs.(*Marker).") {
			return true
		}
		if !more {
			return false
		}
	}
}

func (g *gate) freeze(why string) {
	if g.frozen.CompareAndSwap(false, true) {
		g.mu.Lock()
		g.why = why
		g.mu.Unlock()
	}
}

func (g *gate) lateOps() (int, []string) {
	g.mu.Lock()
	defer g.mu.Unlock()
	return g.nlate, append([]string(nil), g.late...)
}

// debugFire, if set, is called (with the injector locked) whenever a fault fires.
var debugFire func(op errorfs.Op)

func newInjector(rules []Rule) *injector {
	return &injector{rules: rules, st: make([]ruleState, len(rules)), fired: map[string]int{}, step: -1}
}

func (in *injector) String() string { return "fault-plan injector" }

func (in *injector) MaybeError(op errorfs.Op) error {
	cls := fileClass(op.Path)
	kind := opKind(op.Kind, cls)
	in.mu.Lock()
	defer in.mu.Unlock()
	in.ops++
	if in.off || in.paused {
		return nil
	}
	fire := false
	for i := range in.rules {
		r := &in.rules[i]
		if in.step < r.From || !contains(r.Kinds, kind) || (len(r.Classes) > 0 && !contains(r.Classes, cls)) {
			continue
		}
		s := &in.st[i]
		if r.Nth > 0 {
			s.seen++
			if s.seen == r.Nth {
				s.fired++
				fire = true
			}
			continue
		}
		if in.step > r.To || s.fired >= r.Max {
			continue
		}
		s.fired++
		fire = true
	}
	if !fire {
		return nil
	}
	if in.suppress != nil {
		if sig := in.suppress(); sig != "" {
			if in.suppressed == nil {
				in.suppressed = map[string]int{}
			}
			in.suppressed[sig]++
			return nil
		}
	}
	in.total++
	in.fired[cls+":"+kind]++
	if op.Kind == errorfs.OpFileClose {
		// the underlying handle stays open although Pebble did close it
		in.closeFaults++
	}
	if debugFire != nil {
		debugFire(op)
	}
	return errorfs.ErrInjected
}

func (in *injector) setStep(i int) {
	in.mu.Lock()
	in.step = i
	in.mu.Unlock()
}

// pause suspends all rules (and their counters) and returns the function that
// resumes them; used for the oracle's own probes.
func (in *injector) pause() func() {
	in.mu.Lock()
	was := in.paused
	in.paused = true
	in.mu.Unlock()
	return func() {
		in.mu.Lock()
		in.paused = was
		in.mu.Unlock()
	}
}

func (in *injector) disarm() {
	in.mu.Lock()
	in.off = true
	in.mu.Unlock()
}

func (in *injector) firedTotal() int {
	in.mu.Lock()
	defer in.mu.Unlock()
	return in.total
}

func (in *injector) firedLabels() []string {
	in.mu.Lock()
	defer in.mu.Unlock()
	var l []string
	for k := range in.fired {
		l = append(l, "fault-fired="+k)
	}
	sort.Strings(l)
	return l
}

// SigCompactFirst is the signature of the candidate finding: a read error met
// while a compaction positions its range-key / range-deletion input iterators
// for the first time (compact.(*Iter).First -> keyspan.InterleavingIter.First ->
// keyspanimpl.{MergingIter,LevelIter}.First) is swallowed; the compaction sees
// an empty input, succeeds, and its input tables are deleted.
const SigCompactFirst = "compaction-first-positioning-keyspan-read-error-swallowed"

// SigCompactSaveValue is the signature of the candidate finding: an error met
// by compact.(*Iter).saveValue (fetching a value from a value block) is stored
// in Iter.err, but if the saved key is the last one of the compaction input the
// following iterNext overwrites it with iter.Error() == nil; the key is written
// with an empty value. The excluded class is "a fault fires inside saveValue"
// (whether the key is the last one cannot be known at that point).
const SigCompactSaveValue = "compaction-savevalue-error-overwritten-at-end-of-input"

// knownFindingClass classifies the calling goroutine's stack: it returns the
// signature of the known-finding class a fault fired now would belong to
// (active reports whether a signature is listed), or "".
func knownFindingClass(active func(sig string) bool) func() string {
	first, save, open, blob := active(SigCompactFirst), active(SigCompactSaveValue), active(SigFailedOpenLeak), active(SigBlobAbort)
	if !first && !save && !open && !blob {
		return nil
	}
	return func() string {
		pcs := make([]uintptr, 96)
		n := runtime.Callers(2, pcs)
		frames := runtime.CallersFrames(pcs[:n])
		inFirst, inKeyspan, inSave, inOpen, lateOpen, blobClose, finish := false, false, false, false, false, false, false
		for {
			f, more := frames.Next()
			switch {
			case strings.HasSuffix(f.Function, "/internal/compact.(*Iter).First"):
				inFirst = true
			case strings.HasSuffix(f.Function, "/internal/compact.(*Iter).saveValue"):
				inSave = true
			case strings.Contains(f.Function, "/internal/keyspan/keyspanimpl."):
				inKeyspan = true
			case strings.HasSuffix(f.Function, "/sstable/blob.(*FileWriter).Close"):
				blobClose = true
			case strings.HasSuffix(f.Function, "/objstorageprovider.(*fileBufferedWritable).Finish"):
				finish = true
			case f.Function == "github.com/cockroachdb/pebble.Open":
				inOpen = true
			case strings.HasSuffix(f.Function, "/wal.(*StandaloneManager).Create"),
				strings.HasSuffix(f.Function, "pebble.(*DB).ratchetFormatMajorVersionLocked"),
				strings.HasSuffix(f.Function, "pebble.(*DB).writeFormatVersionMarker"):
				// the file-system work Open does after it may have scheduled a flush
				// and compactions (open.go: maybeScheduleFlush precedes the creation
				// of the new WAL and the format-version ratchet).
				lateOpen = true
			}
			if !more {
				break
			}
		}
		switch {
		case save && inSave:
			return SigCompactSaveValue
		case first && inFirst && inKeyspan:
			return SigCompactFirst
		case open && inOpen && lateOpen:
			return SigFailedOpenLeak
		case blob && blobClose && finish:
			return SigBlobAbort
		}
		return ""
	}
}

// SigFailedOpenLeak is the signature of the candidate finding: pebble.Open
// fails after it has scheduled background work (Open runs maybeScheduleFlush,
// whose completion schedules compactions, before it creates the new WAL and
// ratchets the format version); the error path closes the version set while the
// compaction goroutine keeps running and later uses the closed MANIFEST (nil
// dereference on MemFS - the process dies; write to a closed file / Fatalf on a
// real file system).
const SigFailedOpenLeak = "failed-open-leaves-background-compaction-running"

// SigBlobAbort is the signature of the candidate finding: when the Finish of a
// blob file's writable fails (flush of the buffered tail or the fsync),
// blob.(*FileWriter).Close calls Abort on the same writable, although
// fileBufferedWritable.Finish has already closed the file and set it to nil:
// nil dereference on the flush / compaction goroutine, the process dies. It
// cannot be demonstrated in-process (it kills the test binary); the plan is kept
// in findings/blob-writer-abort-nil-deref.json.
const SigBlobAbort = "blob-writer-abort-after-failed-finish-nil-deref"
