package fault

import (
	"fmt"

	"github.com/cockroachdb/pebble"
	"github.com/cockroachdb/pebble/verifharness/dbm"
)

type iterRes struct {
	viol     error
	readErrs int
	reseekOK int
	ops      int
	skipped  int
}

type rkGot struct {
	S int
	V string
}

type gotPos struct {
	key                string
	hasPoint, hasRange bool
	value              string
	rstart, rend       string
	rk                 []rkGot
}

func (g gotPos) String() string {
	s := g.key
	if g.hasPoint {
		s += "=" + fmtVal(g.value)
	}
	if g.hasRange {
		s += fmt.Sprintf(" [%s,%s)%v", g.rstart, g.rend, g.rk)
	}
	return s
}

// readPos reads everything the iterator shows at its (valid) position.
func readPos(it *pebble.Iterator) (gotPos, error) {
	g := gotPos{key: string(it.Key())}
	g.hasPoint, g.hasRange = it.HasPointAndRange()
	if g.hasPoint {
		v, err := it.ValueAndErr()
		if err != nil {
			return g, err
		}
		g.value = string(v)
	}
	if g.hasRange {
		s, e := it.RangeBounds()
		g.rstart, g.rend = string(s), string(e)
		for _, k := range it.RangeKeys() {
			n := 0
			if len(k.Suffix) > 0 {
				fmt.Sscanf(string(k.Suffix), "@%d", &n)
			}
			g.rk = append(g.rk, rkGot{n, string(k.Value)})
		}
	}
	return g, nil
}

func posMatch(g gotPos, e dbm.Pos) bool {
	if !e.Valid || g.key != e.Key || g.hasPoint != e.HasPoint || g.hasRange != e.HasRange {
		return false
	}
	if g.hasPoint && g.value != e.Value {
		return false
	}
	if g.hasRange {
		if g.rstart != e.RStart || g.rend != e.REnd || len(g.rk) != len(e.RKeys) {
			return false
		}
		for i := range g.rk {
			if g.rk[i].S != e.RKeys[i].S || g.rk[i].V != e.RKeys[i].V {
				return false
			}
		}
	}
	return true
}

func iterOptions(o dbm.IterOpts) *pebble.IterOptions {
	io := &pebble.IterOptions{}
	if o.Lower != "" {
		io.LowerBound = []byte(o.Lower)
	}
	if o.Upper != "" {
		io.UpperBound = []byte(o.Upper)
	}
	switch o.KT {
	case dbm.KTPoints:
		io.KeyTypes = pebble.IterKeyTypePointsOnly
	case dbm.KTRanges:
		io.KeyTypes = pebble.IterKeyTypeRangesOnly
	default:
		io.KeyTypes = pebble.IterKeyTypePointsAndRanges
	}
	return io
}

const (
	isUnpos = iota
	isValid
	isExhausted
	isErrored
)

// runIter creates an iterator over db (whose logical contents are st) and runs
// either a full scan or the op sequence, comparing every positioning operation
// with the model: it returns the model's answer, or the iterator is invalid
// with Error() != nil (permitted only if errOK() - a fault has fired). After an
// error relative operations are skipped until the next absolute one, which
// must again be correct or fail.
func runIter(db *pebble.DB, st *dbm.State, o dbm.IterOpts, scan, rev bool, ops []dbm.IterOp, errOK func() bool) (res iterRes) {
	it, err := db.NewIter(iterOptions(o))
	if err != nil {
		if !errOK() {
			res.viol = fmt.Errorf("NewIter returns an error although no fault had been injected: %v", err)
			return
		}
		res.readErrs++
		return
	}
	m := dbm.NewIterModel(st, o)
	state := isUnpos
	var cur dbm.Pos
	prefixMode := false
	wasErrored := false

	// one returns false when the sequence must stop (violation).
	one := func(op dbm.IterOp) bool {
		fail := func(format string, args ...any) bool {
			res.viol = fmt.Errorf("iterator %+v op %s (#%d): %s", o, op, res.ops, fmt.Sprintf(format, args...))
			return false
		}
		var exp dbm.Pos
		abs := true
		switch op.Op {
		case "first":
			m.ClearPrefix()
			exp = m.FirstGE("", false)
		case "last":
			m.ClearPrefix()
			exp = m.LastLT("")
		case "seekge":
			m.ClearPrefix()
			exp = m.FirstGE(op.Key, true)
		case "seeklt":
			m.ClearPrefix()
			exp = m.LastLT(op.Key)
		case "seekprefixge":
			if o.Lower != "" || o.Upper != "" || op.Key == "" {
				res.skipped++
				return true
			}
			m.SetPrefix(splitPrefix(op.Key))
			exp = m.FirstGE(op.Key, true)
		case "next":
			abs = false
			if state != isValid {
				res.skipped++
				return true
			}
			exp = m.NextAfter(cur.Key)
		case "prev":
			abs = false
			if state != isValid || prefixMode {
				res.skipped++
				return true
			}
			exp = m.LastLT(cur.Key)
		default:
			res.skipped++
			return true
		}
		var ok bool
		switch op.Op {
		case "first":
			ok = it.First()
		case "last":
			ok = it.Last()
		case "seekge":
			ok = it.SeekGE([]byte(op.Key))
		case "seeklt":
			ok = it.SeekLT([]byte(op.Key))
		case "seekprefixge":
			ok = it.SeekPrefixGE([]byte(op.Key))
		case "next":
			ok = it.Next()
		case "prev":
			ok = it.Prev()
		}
		if abs {
			prefixMode = op.Op == "seekprefixge"
		}
		res.ops++
		if err := it.Error(); err != nil {
			if ok || it.Valid() {
				return fail("reports a valid position although Error() = %v", err)
			}
			if !errOK() {
				return fail("Error() = %v although no fault had been injected", err)
			}
			res.readErrs++
			state = isErrored
			wasErrored = true
			return true
		}
		if ok != it.Valid() {
			return fail("returned %v but Valid() = %v", ok, it.Valid())
		}
		if !ok {
			if exp.Valid {
				return fail("the iterator is exhausted without an error, the model expects %s", exp)
			}
			state = isExhausted
			return true
		}
		got, verr := readPos(it)
		if verr != nil {
			if !errOK() {
				return fail("ValueAndErr fails although no fault had been injected: %v", verr)
			}
			res.readErrs++
			state = isErrored
			wasErrored = true
			return true
		}
		if !posMatch(got, exp) {
			return fail("got %s, the model expects %s", got, exp)
		}
		if wasErrored && abs {
			res.reseekOK++
			wasErrored = false
		}
		state, cur = isValid, exp
		return true
	}

	if scan {
		first, step := "first", "next"
		if rev {
			first, step = "last", "prev"
		}
		if one(dbm.IterOp{Op: first}) {
			for n := 0; state == isValid && n < 2000; n++ {
				if !one(dbm.IterOp{Op: step}) {
					break
				}
			}
		}
	} else {
		for _, op := range ops {
			if !one(op) {
				break
			}
		}
	}
	cerr := it.Close()
	if res.viol == nil && cerr != nil {
		if !errOK() {
			res.viol = fmt.Errorf("iterator Close returns an error although no fault had been injected: %v", cerr)
		} else if state != isErrored && res.readErrs == 0 {
			// Close reports an accumulated error the positioning calls never showed.
			res.readErrs++
		}
	}
	return res
}
