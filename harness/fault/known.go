package fault

import (
	"fmt"

	"github.com/cockroachdb/pebble"
	"github.com/cockroachdb/pebble/verifharness/dbm"
	"github.com/cockroachdb/pebble/verifharness/evid"
)

// knownPlans are the demonstrations of the findings this check excludes.
func knownPlans() []evid.Known[Plan] {
	// Two overlapping L0 tables with points and range keys; a manual compaction
	// whose 11th sstable read - the read of the first input's range-key block,
	// issued by compact.(*Iter).First through keyspanimpl.LevelIter.First - fails
	// once. DB.Compact returns nil, no background error is reported, and the
	// compaction "of an empty input" deletes both tables: every key is lost.
	opt := dbm.OptPlan{
		FMV: int(pebble.FormatNewest), MemTableSize: 8 << 10, MemStop: 2, L0Compaction: 2, L0CompactionFiles: 1,
		LBaseMaxBytes: 1 << 10, TargetFileSize: 256, BlockSize: 4096, IndexBlockSize: 4096, RestartInterval: 2,
		Compression: 5, Filter: 2, MaxManifest: 1, ConcurrencyMax: 2, DisableAutoCompaction: true,
		DisableIngestFlush: true, IngestSplit: true, DelOnlyExcise: true, FlushSplitBytes: 1 << 10, CacheSize: 1 << 10, BundleSize: 4,
	}
	steps := []Step{
		{K: "write", Ops: []dbm.Op{{K: "set", A: "a@1", V: "v1"}, {K: "set", A: "c", V: "v2"}, {K: "rkset", A: "aa", B: "bb", S: 2, V: "r1"}, {K: "set", A: "e@5", V: "v3"}}, Sync: true},
		{K: "flush"},
		{K: "write", Ops: []dbm.Op{{K: "set", A: "a@2", V: "v4"}, {K: "set", A: "d", V: "v5"}, {K: "rkset", A: "b", B: "c", S: 3, V: "r2"}}, Sync: true},
		{K: "flush"},
		{K: "compact", A: "a", B: "z"},
		{K: "faultsoff"},
	}
	// Value blocks enabled; b@3 (older version of prefix b, value stored in a value
	// block) is the last key of the compaction input. The 11th sstable read of the
	// manual compaction - the value-block read issued by compact.(*Iter).saveValue
	// - fails once. Iter.err is set, then overwritten by iterNext at the end of
	// the input; DB.Compact returns nil and b@3 is rewritten with an empty value.
	opt2 := opt
	opt2.ValueBlocks = true
	steps2 := []Step{
		{K: "write", Ops: []dbm.Op{{K: "set", A: "b@4", V: "v1"}, {K: "set", A: "b@3", V: "v2"}}, Sync: true},
		{K: "flush"},
		{K: "write", Ops: []dbm.Op{{K: "set", A: "a", V: "v3"}, {K: "set", A: "b@4", V: "v4"}}, Sync: true},
		{K: "flush"},
		{K: "compact", A: "a", B: "z"},
		{K: "faultsoff"},
	}
	// An Open that has to flush a replayed WAL (which schedules a compaction:
	// L0CompactionThreshold 1) and then fails to create its new WAL (first WAL
	// creation from the restart step on). Open returns the injected error while the compaction
	// it started is still running; that goroutine goes on to use the version set
	// the error path has closed.
	opt3 := opt
	opt3.DisableAutoCompaction = false
	opt3.L0Compaction = 1
	opt3.MemTableSize = 1 << 20
	big := func(tag string, sfx ...int) []dbm.Op {
		var ops []dbm.Op
		for _, pfx := range dbm.Prefixes {
			for _, n := range sfx {
				ops = append(ops, dbm.Op{K: "set", A: mkKey(pfx, n), V: fmt.Sprintf("%s%d", tag, len(ops)), VLen: 9000})
			}
		}
		return ops
	}
	steps3 := []Step{
		{K: "write", Ops: big("x", 0, 2, 4), Sync: true},
		{K: "flush"},
		{K: "wait"},
		{K: "write", Ops: big("y", 1, 3, 5), Sync: true},
		{K: "restart"},
		{K: "get", A: "a"},
		{K: "faultsoff"},
	}
	rule3 := []Rule{{Kinds: []string{"create"}, Classes: []string{"wal"}, From: 4, Nth: 1}}
	rule := []Rule{{Kinds: []string{"read"}, Classes: []string{"sst"}, From: 4, Nth: 11}}
	return []evid.Known[Plan]{
		{Signature: SigCompactFirst, Plan: Plan{Opt: opt, Steps: steps, End: EndPlan{Surv: []int{0}}, NoExclude: true, Rules: rule}},
		{Signature: SigCompactSaveValue, Plan: Plan{Opt: opt2, Steps: steps2, End: EndPlan{Surv: []int{0}}, NoExclude: true, Rules: rule}},
		{Signature: SigFailedOpenLeak, Plan: Plan{Opt: opt3, Steps: steps3, End: EndPlan{Surv: []int{0}}, NoExclude: true, Rules: rule3}},
	}
}
