// Package fault: C43 - I/O faults never cause wrong results or inconsistent state.
//
// A real pebble.DB runs on errorfs.Wrap(vfs.NewCrashableMem(), injector) where
// the injector follows a drawn fault plan; every read is compared with the
// reference model of package dbm, and after the faults stop (or after Pebble
// declared a fatal error) the store is reopened - cleanly or from deterministic
// crash images - and must be a consistent prefix of the history that contains
// every acknowledged durable write.
package fault

import (
	"fmt"
	"strings"

	"github.com/cockroachdb/pebble/verifharness/dbm"
)

// Step is one step of a fault case.
//
//	write     Ops (one op: direct DB method; several: Batch.Commit), Sync
//	get       A
//	scan      IO, Rev (full scan)
//	iter      IO, IOps (positioning sequence on a fresh iterator)
//	flush     DB.Flush
//	ingest    Tables, A,B (DB.Ingest of freshly written external sstables; with A,B
//	          DB.IngestAndExcise, without tables DB.Excise; only run while every
//	          earlier commit is durable, see exec)
//	compact   A,B (DB.Compact), Par
//	wait      poll until no flush/compaction is running (bounded, never a verdict)
//	restart   Close + Open on the same file system (faults stay as they are)
//	faultsoff disarm every rule for the rest of the case
type Step struct {
	K    string        `json:"k"`
	Ops  []dbm.Op      `json:"ops,omitempty"`
	Sync bool          `json:"sync,omitempty"`
	A    string        `json:"a,omitempty"`
	B    string        `json:"b,omitempty"`
	IO   *dbm.IterOpts `json:"io,omitempty"`
	IOps []dbm.IterOp  `json:"iops,omitempty"`
	Rev  bool          `json:"rev,omitempty"`
	Par  bool          `json:"par,omitempty"`
	// Tables: the sstables of an "ingest" step (point sets / deletes, disjoint)
	Tables [][]dbm.Op `json:"tables,omitempty"`
}

func (s Step) String() string {
	var b strings.Builder
	b.WriteString(s.K)
	if len(s.Ops) > 0 {
		fmt.Fprintf(&b, " %v", s.Ops)
	}
	for _, t := range s.Tables {
		fmt.Fprintf(&b, " table%v", t)
	}
	if s.Sync {
		b.WriteString(" sync")
	}
	if s.A != "" || s.B != "" {
		fmt.Fprintf(&b, " [%s,%s)", s.A, s.B)
	}
	if s.IO != nil {
		fmt.Fprintf(&b, " %+v", *s.IO)
	}
	if len(s.IOps) > 0 {
		fmt.Fprintf(&b, " %v", s.IOps)
	}
	if s.Rev {
		b.WriteString(" rev")
	}
	return b.String()
}

// EndPlan says how the case ends if the DB is still alive after the last step.
type EndPlan struct {
	// Crash: do not Close; take crash images (one per survival mode) of the file
	// system and recover each. Otherwise Close + reopen on the same file system.
	Crash bool `json:"crash,omitempty"`
	// Surv: survival modes of the crash images (also used after a fatal error):
	// 0 = only synced data, 1 = everything written, n >= 2 = pseudo-random subset
	// of the unsynced 4 KiB blocks / directory entries selected by n.
	Surv []int `json:"surv"`
}

// Plan is a complete case: DB options, history, fault rules, ending.
type Plan struct {
	Opt   dbm.OptPlan `json:"opt"`
	Steps []Step      `json:"steps"`
	Rules []Rule      `json:"rules"`
	End   EndPlan     `json:"end"`
	// NoExclude keeps the classes of known findings in the case (never drawn;
	// set in the known-finding demonstrations).
	NoExclude bool `json:"noexclude,omitempty"`
}

func (p Plan) Summary() any {
	steps := make([]string, 0, len(p.Steps))
	for i, s := range p.Steps {
		str := fmt.Sprintf("%d: %s", i, s.String())
		if len(str) > 200 {
			str = str[:200] + "..."
		}
		steps = append(steps, str)
	}
	rules := make([]string, 0, len(p.Rules))
	for _, r := range p.Rules {
		rules = append(rules, r.String())
	}
	return map[string]any{"opt": p.Opt, "rules": rules, "steps": steps, "end": p.End}
}
