package fault

import (
	"sort"
	"sync"

	"github.com/cockroachdb/errors"
	"github.com/cockroachdb/pebble/vfs"
)

// safeFS gives MemFS the behaviour of an operating system for operations on a
// file that was already closed: they fail with an error (MemFS dereferences a
// nil pointer instead, which would take the whole test process down when a
// goroutine Pebble leaked after a failed Open uses the closed MANIFEST).
type safeFS struct {
	vfs.FS
	// reg, if set, tracks the handles opened through this FS (one registry per
	// DB instance): DB.Close must leave none open.
	reg *handleReg
}

type handleReg struct {
	mu   sync.Mutex
	open map[*safeFile]string
}

func newHandleReg() *handleReg { return &handleReg{open: map[*safeFile]string{}} }

func (h *handleReg) add(f *safeFile, name string) {
	h.mu.Lock()
	h.open[f] = name
	h.mu.Unlock()
}

func (h *handleReg) del(f *safeFile) {
	h.mu.Lock()
	delete(h.open, f)
	h.mu.Unlock()
}

// names lists the paths of the handles that are still open.
func (h *handleReg) names() []string {
	h.mu.Lock()
	defer h.mu.Unlock()
	var l []string
	for _, n := range h.open {
		l = append(l, n)
	}
	sort.Strings(l)
	return l
}

var errFileClosed = errors.New("harness: file already closed")

func (fs safeFS) wrap(name string, f vfs.File, err error) (vfs.File, error) {
	if err != nil {
		return nil, err
	}
	sf := &safeFile{f: f, reg: fs.reg}
	if fs.reg != nil {
		fs.reg.add(sf, name)
	}
	return sf, nil
}

func (fs safeFS) Create(name string, c vfs.DiskWriteCategory) (vfs.File, error) {
	f, err := fs.FS.Create(name, c)
	return fs.wrap(name, f, err)
}
func (fs safeFS) Open(name string, opts ...vfs.OpenOption) (vfs.File, error) {
	f, err := fs.FS.Open(name, opts...)
	return fs.wrap(name, f, err)
}
func (fs safeFS) OpenReadWrite(name string, c vfs.DiskWriteCategory, opts ...vfs.OpenOption) (vfs.File, error) {
	f, err := fs.FS.OpenReadWrite(name, c, opts...)
	return fs.wrap(name, f, err)
}
func (fs safeFS) OpenDir(name string) (vfs.File, error) {
	f, err := fs.FS.OpenDir(name)
	return fs.wrap(name, f, err)
}
func (fs safeFS) ReuseForWrite(oldname, newname string, c vfs.DiskWriteCategory) (vfs.File, error) {
	f, err := fs.FS.ReuseForWrite(oldname, newname, c)
	return fs.wrap(newname, f, err)
}

type safeFile struct {
	mu     sync.RWMutex
	closed bool
	f      vfs.File
	reg    *handleReg
}

func (f *safeFile) Close() error {
	f.mu.Lock()
	defer f.mu.Unlock()
	if f.closed {
		return errFileClosed
	}
	f.closed = true
	if f.reg != nil {
		f.reg.del(f)
	}
	return f.f.Close()
}

func (f *safeFile) Read(p []byte) (int, error) {
	f.mu.RLock()
	defer f.mu.RUnlock()
	if f.closed {
		return 0, errFileClosed
	}
	return f.f.Read(p)
}

func (f *safeFile) ReadAt(p []byte, off int64) (int, error) {
	f.mu.RLock()
	defer f.mu.RUnlock()
	if f.closed {
		return 0, errFileClosed
	}
	return f.f.ReadAt(p, off)
}

func (f *safeFile) Write(p []byte) (int, error) {
	f.mu.RLock()
	defer f.mu.RUnlock()
	if f.closed {
		return 0, errFileClosed
	}
	return f.f.Write(p)
}

func (f *safeFile) WriteAt(p []byte, off int64) (int, error) {
	f.mu.RLock()
	defer f.mu.RUnlock()
	if f.closed {
		return 0, errFileClosed
	}
	return f.f.WriteAt(p, off)
}

func (f *safeFile) Preallocate(off, n int64) error {
	f.mu.RLock()
	defer f.mu.RUnlock()
	if f.closed {
		return errFileClosed
	}
	return f.f.Preallocate(off, n)
}

func (f *safeFile) Stat() (vfs.FileInfo, error) {
	f.mu.RLock()
	defer f.mu.RUnlock()
	if f.closed {
		return nil, errFileClosed
	}
	return f.f.Stat()
}

func (f *safeFile) Sync() error {
	f.mu.RLock()
	defer f.mu.RUnlock()
	if f.closed {
		return errFileClosed
	}
	return f.f.Sync()
}

func (f *safeFile) SyncTo(n int64) (bool, error) {
	f.mu.RLock()
	defer f.mu.RUnlock()
	if f.closed {
		return false, errFileClosed
	}
	return f.f.SyncTo(n)
}

func (f *safeFile) SyncData() error {
	f.mu.RLock()
	defer f.mu.RUnlock()
	if f.closed {
		return errFileClosed
	}
	return f.f.SyncData()
}

func (f *safeFile) Prefetch(off, n int64) error {
	f.mu.RLock()
	defer f.mu.RUnlock()
	if f.closed {
		return errFileClosed
	}
	return f.f.Prefetch(off, n)
}

func (f *safeFile) Fd() uintptr {
	f.mu.RLock()
	defer f.mu.RUnlock()
	if f.closed {
		return vfs.InvalidFd
	}
	return f.f.Fd()
}
