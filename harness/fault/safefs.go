package fault

import (
	"sync"

	"github.com/cockroachdb/errors"
	"github.com/cockroachdb/pebble/vfs"
)

// safeFS gives MemFS the behaviour of an operating system for operations on a
// file that was already closed: they fail with an error (MemFS dereferences a
// nil pointer instead, which would take the whole test process down when a
// goroutine Pebble leaked after a failed Open uses the closed MANIFEST).
type safeFS struct {
	vfs.FS
}

var errFileClosed = errors.New("harness: file already closed")

func (fs safeFS) wrap(f vfs.File, err error) (vfs.File, error) {
	if err != nil {
		return nil, err
	}
	return &safeFile{f: f}, nil
}

func (fs safeFS) Create(name string, c vfs.DiskWriteCategory) (vfs.File, error) {
	return fs.wrap(fs.FS.Create(name, c))
}
func (fs safeFS) Open(name string, opts ...vfs.OpenOption) (vfs.File, error) {
	return fs.wrap(fs.FS.Open(name, opts...))
}
func (fs safeFS) OpenReadWrite(name string, c vfs.DiskWriteCategory, opts ...vfs.OpenOption) (vfs.File, error) {
	return fs.wrap(fs.FS.OpenReadWrite(name, c, opts...))
}
func (fs safeFS) OpenDir(name string) (vfs.File, error) { return fs.wrap(fs.FS.OpenDir(name)) }
func (fs safeFS) ReuseForWrite(oldname, newname string, c vfs.DiskWriteCategory) (vfs.File, error) {
	return fs.wrap(fs.FS.ReuseForWrite(oldname, newname, c))
}

type safeFile struct {
	mu     sync.RWMutex
	closed bool
	f      vfs.File
}

func (f *safeFile) Close() error {
	f.mu.Lock()
	defer f.mu.Unlock()
	if f.closed {
		return errFileClosed
	}
	f.closed = true
	return f.f.Close()
}

func (f *safeFile) Read(p []byte) (int, error) {
	f.mu.RLock()
	defer f.mu.RUnlock()
	if f.closed {
		return 0, errFileClosed
	}
	return f.f.Read(p)
}

func (f *safeFile) ReadAt(p []byte, off int64) (int, error) {
	f.mu.RLock()
	defer f.mu.RUnlock()
	if f.closed {
		return 0, errFileClosed
	}
	return f.f.ReadAt(p, off)
}

func (f *safeFile) Write(p []byte) (int, error) {
	f.mu.RLock()
	defer f.mu.RUnlock()
	if f.closed {
		return 0, errFileClosed
	}
	return f.f.Write(p)
}

func (f *safeFile) WriteAt(p []byte, off int64) (int, error) {
	f.mu.RLock()
	defer f.mu.RUnlock()
	if f.closed {
		return 0, errFileClosed
	}
	return f.f.WriteAt(p, off)
}

func (f *safeFile) Preallocate(off, n int64) error {
	f.mu.RLock()
	defer f.mu.RUnlock()
	if f.closed {
		return errFileClosed
	}
	return f.f.Preallocate(off, n)
}

func (f *safeFile) Stat() (vfs.FileInfo, error) {
	f.mu.RLock()
	defer f.mu.RUnlock()
	if f.closed {
		return nil, errFileClosed
	}
	return f.f.Stat()
}

func (f *safeFile) Sync() error {
	f.mu.RLock()
	defer f.mu.RUnlock()
	if f.closed {
		return errFileClosed
	}
	return f.f.Sync()
}

func (f *safeFile) SyncTo(n int64) (bool, error) {
	f.mu.RLock()
	defer f.mu.RUnlock()
	if f.closed {
		return false, errFileClosed
	}
	return f.f.SyncTo(n)
}

func (f *safeFile) SyncData() error {
	f.mu.RLock()
	defer f.mu.RUnlock()
	if f.closed {
		return errFileClosed
	}
	return f.f.SyncData()
}

func (f *safeFile) Prefetch(off, n int64) error {
	f.mu.RLock()
	defer f.mu.RUnlock()
	if f.closed {
		return errFileClosed
	}
	return f.f.Prefetch(off, n)
}

func (f *safeFile) Fd() uintptr {
	f.mu.RLock()
	defer f.mu.RUnlock()
	if f.closed {
		return vfs.InvalidFd
	}
	return f.f.Fd()
}
