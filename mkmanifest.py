#!/usr/bin/env python3
"""Regenerates MANIFEST.json from checks.json (claimed checks) and not_applicable.json."""
import json, os
V = os.path.dirname(os.path.abspath(__file__))
cfg = json.load(open(os.path.join(V, "checks.json")))
na = json.load(open(os.path.join(V, "not_applicable.json")))
props = [json.loads(l)["id"] for l in open(os.path.join(V, "properties.jsonl")) if l.strip()]
checks = []
for pid in props:
    if pid not in cfg:
        continue
    c = cfg[pid]
    checks.append({
        "property_id": pid,
        "quick_cmd": "./check %s --tier quick" % pid,
        "thorough_cmd": "./check %s --tier thorough" % pid,
        "evidence_file": "/verif/evidence/%s.json" % pid,
        "replay_cmd_template": "./check %s --replay {path}" % pid,
        "engine": c.get("engine", c["pkg"]),
        "level_claimed": {"category": c["level"], "text": c["level_text"], "design_ref": c.get("design_ref", "DESIGN.md §4 " + pid)},
        "level_note": c["level_note"],
        "technique": c["technique"],
    })
claimed = {c["property_id"] for c in checks}
nal = [{"property_id": p, "reason": na.get(p, "no check built yet in this session; see DESIGN.md §4 for the planned check")} for p in props if p not in claimed]
hooks = json.load(open(os.path.join(V, "hooks.json")))
engines = {}
for pid, c in cfg.items():
    e = engines.setdefault(c.get("engine", c["pkg"]), {"name": c.get("engine", c["pkg"]), "path": "harness/" + c["pkg"], "serves_properties": [], "kind_free_text": c.get("engine_kind", "rapid property-based test")})
    e["serves_properties"].append(pid)
m = {
    "version": 1,
    "setup_cmd": "./setup.sh",
    "hooks": hooks,
    "engines": sorted(engines.values(), key=lambda e: e["name"]),
    "checks": checks,
    "notes": "All checks are property-based tests (pgregory.net/rapid v1.3.0) or fuzzing with explicit oracles; ./check <ID> builds the harness against /repo's working tree with -tags verif, runs it with a seed derived from VERIF_SEED, writes evidence/<ID>.json from the test binary, and maps outcomes to exit 0/1/2 (2 = inconclusive: build failure, timeout). See DESIGN.md.",
    "not_applicable": nal,
}
json.dump(m, open(os.path.join(V, "MANIFEST.json"), "w"), indent=1)
print("claimed", len(checks), "not claimed", len(nal))
