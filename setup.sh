#!/bin/bash
# Builds every check binary once (warms the Go build cache). Offline.
set -e
cd "$(dirname "$0")/harness"
export GOFLAGS=-mod=mod GOPROXY=off
unset GOSUMDB GOTOOLCHAIN
mkdir -p ../bin ../evidence
for pkg in $(python3 -c "import json;print(' '.join(sorted({c['pkg'] for c in json.load(open('../checks.json')).values()})))"); do
  go test -c -vet=off -tags verif -o ../bin/$(echo $pkg | tr / _).test ./$pkg
done
echo setup ok
