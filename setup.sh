#!/bin/bash
# Builds every check binary once (warms the Go build cache, including the -race
# variants). Offline.
set -e
cd "$(dirname "$0")/harness"
export GOFLAGS=-mod=mod GOPROXY=off
unset GOSUMDB GOTOOLCHAIN
mkdir -p ../bin ../evidence
python3 - <<'PY' > ../bin/.setup_pkgs
import json
c = json.load(open('../checks.json'))
seen = set()
for v in c.values():
    k = (v['pkg'], v.get('tags', 'verif'), bool(v.get('race')))
    if k not in seen:
        seen.add(k)
        print(v['pkg'], v.get('tags', 'verif'), '1' if v.get('race') else '0')
PY
while read pkg tags race; do
  out=../bin/$(echo $pkg | tr / _)
  if [ "$race" = "1" ]; then
    go test -c -vet=off -race -tags "$tags" -o ${out}_race.test ./$pkg
  else
    go test -c -vet=off -tags "$tags" -o ${out}.test ./$pkg
  fi
done < ../bin/.setup_pkgs
rm -f ../bin/.setup_pkgs
echo setup ok
