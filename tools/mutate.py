#!/usr/bin/env python3
"""Development-only sensitivity runner.
usage: mutate.py <scratchname> <mutants.json> [--checks N]
mutants.json: [{"name":..., "file":..., "old":..., "new":..., "checks":["C01",...], "count":1}]
Applies each mutant to a scratch copy of /repo (under /var/tmp/mut/<scratchname>/r), runs the listed
checks against it through VERIF_REPO, reports exit codes, restores the file.
"""
import json, os, subprocess, sys, shutil, time
name, mfile = sys.argv[1], sys.argv[2]
extra = sys.argv[3:]
root = "/var/tmp/mut/%s/r" % name
os.makedirs(os.path.dirname(root), exist_ok=True)
subprocess.check_call(["rsync", "-a", "--delete", "--exclude", ".git", "/repo/", root + "/"])
muts = json.load(open(mfile))
results = []
for m in muts:
    p = os.path.join(root, m["file"])
    src = open(p).read()
    if src.count(m["old"]) < 1:
        print("MUTANT %s: pattern not found" % m["name"]); results.append((m["name"], "nopattern")); continue
    open(p, "w").write(src.replace(m["old"], m["new"], m.get("count", 1)))
    row = []
    for c in m["checks"]:
        env = dict(os.environ, VERIF_REPO=root)
        t0 = time.time()
        r = subprocess.run(["/verif/check", c] + extra, env=env, stdout=subprocess.PIPE, stderr=subprocess.STDOUT, text=True)
        det = [l for l in r.stdout.splitlines() if l.startswith("  detail")]
        row.append("%s=%d(%.0fs)" % (c, r.returncode, time.time() - t0))
        if r.returncode == 1 and det:
            row.append(det[0][:200])
        if r.returncode == 2:
            row.append(r.stdout[-600:])
        # remove the replay files this run created
        shutil.rmtree("/verif/replays/%s" % c, ignore_errors=True) if not os.path.exists("/verif/replays/%s/.keep" % c) else None
    open(p, "w").write(src)
    print("MUTANT %-40s %s" % (m["name"], " ".join(row)), flush=True)
    results.append((m["name"], row))
