#!/bin/bash
# usage: tools/runall.sh [seed] [ids...]  -> runs quick tier, prints id exit wall
cd /verif
seed=${1:-0}; shift
ids=${@:-$(python3 -c "import json;print(' '.join(sorted(json.load(open('checks.json')))))")}
for id in $ids; do
  s=$(date +%s)
  out=$(VERIF_SEED=$seed ./check $id 2>&1); rc=$?
  e=$(( $(date +%s)-s ))
  kf=$(echo "$out" | grep -c '^KNOWN-FINDING')
  echo "$id exit=$rc wall=${e}s known=$kf $(echo "$out" | grep -m1 '^VIOLATION\|INCONCLUSIVE' )"
done
