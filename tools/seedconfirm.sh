#!/bin/bash
# usage: tools/seedconfirm.sh <id> [name]   (worktree /tmp/seed/<id>, results to /verif/seeded/<name>/)
# Confirms a seeded change: demo fails with it, passes without it, existing tests of the
# changed packages (and the root package) pass with it. Leaves the worktree with the change applied.
id=$1; name=${2:-$id}
wt=/tmp/seed/$id
out=/verif/seeded/$name
export GOFLAGS=-mod=mod GOPROXY=off
unset GOSUMDB GOTOOLCHAIN
mkdir -p $out
cp $wt/_seed/patch.diff $out/patch.diff
cp $wt/_seed/meta.json $out/meta.agent.json 2>/dev/null
cp $wt/_seed/demo.md $out/demo.md 2>/dev/null
for f in $wt/_seed/*_test.go $wt/_seed/*.go; do [ -f "$f" ] && cp "$f" $out/; done
cd $wt
log=$out/confirm.log
: > $log
democmd=$(grep -o 'go test[^`]*' $out/demo.md | grep -i 'seed\|demo' | head -1)
[ -z "$democmd" ] && democmd=$(grep -o 'go test[^`]*' $out/demo.md | head -1)
demodir=$(grep -o 'cd [^ &;`]*' $out/demo.md | head -1 | cut -d' ' -f2)
echo "demo command: $democmd (dir ${demodir:-.})" | tee -a $log
# state: patch applied?
if git apply -R --check $out/patch.diff 2>/dev/null; then applied=1; else applied=0; git apply $out/patch.diff || { echo "PATCH DOES NOT APPLY" | tee -a $log; exit 3; }; fi
rundemo() { ( [ -n "$demodir" ] && [ -d "$demodir" ] && cd $demodir; eval "$democmd" ) > $out/demo.$1.log 2>&1; echo $?; }
rc_with=$(rundemo with)
echo "demo with change: exit $rc_with" | tee -a $log
git apply -R $out/patch.diff
rc_without=$(rundemo without)
echo "demo without change: exit $rc_without" | tee -a $log
git apply $out/patch.diff
pkgs=$(grep '^+++ b/' $out/patch.diff | sed 's#^+++ b/##' | xargs -n1 dirname | sort -u | sed 's#^#./#')
echo "packages changed: $pkgs" | tee -a $log
demofiles=$(git status --short | grep '^??' | awk '{print $2}' | grep '_test.go$')
# run existing tests of changed packages + root, skipping the demo test
go test -vet=off -count=1 -p 6 -timeout 25m -skip 'SeedDemo|Seed_Demo|TestSeed' $pkgs . > $out/existing_tests.log 2>&1
rc_tests=$?
echo "existing tests with change (go test $pkgs .): exit $rc_tests" | tee -a $log
grep -E '^(--- FAIL|FAIL|ok )' $out/existing_tests.log | head -20 | tee -a $log
echo "RESULT id=$id demo_with=$rc_with demo_without=$rc_without tests=$rc_tests" | tee -a $log
