#!/bin/bash
# usage: tools/seedfresh.sh <name>   -> (re)creates /tmp/seed/<name> at /repo HEAD with seeded/<name>/patch.diff applied
name=$1
git -C /repo worktree remove --force /tmp/seed/$name 2>/dev/null
rm -rf /tmp/seed/$name /var/tmp/vseed_$name
git -C /repo worktree add -f --detach /tmp/seed/$name HEAD >/dev/null 2>&1 || exit 3
cd /tmp/seed/$name && git apply /verif/seeded/$name/patch.diff && echo "fresh worktree /tmp/seed/$name at $(git -C /repo log --format=%h -1) + patch"
