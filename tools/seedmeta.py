#!/usr/bin/env python3
"""usage: seedmeta.py <name> <status> <detected_by> <note>
Composes /verif/seeded/<name>/meta.json from the agent's meta (meta.agent.json), my confirmation
log (confirm.log) and the detection record given on the command line."""
import json, sys, os, re
name, status, detected_by, note = sys.argv[1:5]
d = '/verif/seeded/' + name
agent = {}
try:
    agent = json.load(open(d + '/meta.agent.json'))
except Exception as e:
    agent = {"error": "agent meta unreadable: %s" % e}
conf = open(d + '/confirm.log').read() if os.path.exists(d + '/confirm.log') else ''
m = re.search(r'RESULT id=\S+ demo_with=(\d+) demo_without=(\d+) tests=(\d+)', conf)
meta = {
    "property": agent.get("property", name[:3]),
    "breaks": agent.get("summary", ""),
    "needs_to_manifest": agent.get("needs_to_manifest", ""),
    "files_changed": agent.get("files_changed", []),
    "origin": "independent sub-agent given only the property text and a scratch worktree of /repo (nothing from /verif)",
    "confirmed_by_me": {
        "script": "tools/seedconfirm.sh (scratch worktree of /repo HEAD with patch.diff applied)",
        "demo_fails_with_change": (m.group(1) != '0') if m else None,
        "demo_passes_without_change": (m.group(2) == '0') if m else None,
        "existing_tests_pass_with_change": (m.group(3) == '0') if m else None,
        "existing_tests_run": [l for l in conf.splitlines() if l.startswith(('existing tests', 'ok ', 'FAIL', '--- FAIL'))],
        "demo_command": next((l for l in conf.splitlines() if l.startswith('demo command')), ''),
    },
    "detection": {"status": status, "by": detected_by, "note": note},
}
json.dump(meta, open(d + '/meta.json', 'w'), indent=1)
print("wrote", d + '/meta.json')
