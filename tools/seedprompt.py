#!/usr/bin/env python3
"""Prints the prompt given to an independent sub-agent that seeds a property-breaking change.
usage: seedprompt.py Cxx <worktree-dir> [variant-hint]"""
import json, sys
pid, wt = sys.argv[1], sys.argv[2]
hint = sys.argv[3] if len(sys.argv) > 3 else ""
prop = None
for l in open('/verif/properties.jsonl'):
    p = json.loads(l)
    if p['id'] == pid:
        prop = p
anch = prop.get('anchors', {})
print(f"""You are working alone in a scratch git worktree of the Go project cockroachdb/pebble (an LSM-tree key-value store) at:

    {wt}

Work ONLY inside that directory. Do not read, list or modify anything under /verif or /repo, and do not touch any other directory under /tmp. There is no network. For every go command use exactly:
    export GOFLAGS=-mod=mod GOPROXY=off
(do not set GOSUMDB or GOTOOLCHAIN). The first build takes ~2 minutes; later ones are cached. The machine is shared with other jobs, so use `-p 4` for `go test` runs of big packages. Do not run `git commit`, `git stash`, `git checkout`, `git reset` or `git worktree`; leave your edits uncommitted in the working tree.

## The property

Title: {prop['title']}

Statement: {prop['statement']}

It quantifies over: {prop['quantifier']['text']}

Code it is anchored in (starting points, not a limit): {', '.join(anch.get('files', []))}

## Your task

Produce ONE small, realistic change to pebble's NON-test source code that makes the property above false, while
  (a) everything still compiles (`go build ./...` and `go vet` are not required to be clean beyond compiling, but `go test -count=1 -run '^$' ./...` style compilation of the packages you touch must work), and
  (b) the existing tests still pass: at minimum run the complete tests of every package you changed, plus — if you changed anything the root package `github.com/cockroachdb/pebble` uses — `go test -vet=off -count=1 -p 4 -timeout 25m .` for the root package (it takes several minutes; run it in the background while you write the demonstration). If an existing test fails because of your change, choose a different change; do not edit tests or testdata.

The change must be the kind of bug a competent engineer could plausibly introduce and a reviewer could miss: an off-by-one, a wrong comparison operator, a dropped sync/flush/lock/ref, a skipped case in a rarely taken path, a stale cached value, two individually reasonable edits at cooperating sites, a wrong boundary (inclusive/exclusive), a missing check on one of several code paths. It must NOT be exposed at once by ordinary use: it should need something specific to manifest — a particular interleaving, a crash or I/O fault at a particular point, a multi-step sequence of operations, an unusual input or configuration, or two cooperating sites that each look fine alone. Do not special-case magic keys/values/sizes (no `if key == "xyz"`), do not add build tags, environment variables, randomness or time dependence, do not delete whole features, and keep it to a few lines (ideally 1-10 changed lines in 1-2 files). {hint}

Then write a DEMONSTRATION: a Go test (preferred: a new file `seed_demo_test.go` in the most convenient package, using only what is already in the repository) or a small program that
  - FAILS with your change applied, and
  - PASSES on the unchanged code (verify this yourself: `git stash` is forbidden, so copy your changed files aside, restore the originals with `git diff > /tmp/x.diff; git apply -R /tmp/x.diff`, run the demo, then re-apply with `git apply /tmp/x.diff`).
The demonstration should show the *property* being violated in observable terms (wrong/missing/extra key or value read back, lost write after a simulated crash on vfs.MemFS, wrong iterator position, an error that must not happen, a panic, a data race, etc.), not merely that an internal function returns something different.

## Deliverables (all inside {wt}/_seed/)

1. `patch.diff` — `git diff` of your source change ONLY (no test files, nothing from _seed/), applicable with `git apply` at the worktree root.
2. the demonstration file(s), plus `demo.md` saying exactly where to put them and the exact command to run them (e.g. `cp _seed/seed_demo_test.go . && go test -vet=off -count=1 -run TestSeedDemo .`).
3. `meta.json` with keys: `property` ("{pid}"), `summary` (one paragraph: what was changed and why the property breaks), `needs_to_manifest` (what specific sequence/interleaving/crash point/input/configuration is needed), `files_changed`, `commands_run` (list of the exact test commands you ran and their outcome with/without the change), `existing_tests_pass` (true/false, with the list of packages whose full tests you ran with the change applied).
Leave the worktree with your source change applied and the demo file in place.

In your final message report: the diff, how the demo fails with it, confirmation that it passes without it, and which existing test packages you ran with the change. If after serious effort you cannot find a change that passes the existing tests, say so and deliver the best candidate with `existing_tests_pass: false` and the failing test names.
""")
