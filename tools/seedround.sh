#!/bin/bash
# usage: tools/seedround.sh <Cxx> <suffix>   -> creates worktree /tmp/seed/<Cxx><suffix> and prompt /tmp/seed/prompts/<Cxx><suffix>.md
id=$1; sfx=$2; name=$id$sfx
used=$(python3 - <<PY
import glob,os
fs=set()
for d in glob.glob('/verif/seeded/*/patch.diff'):
    for l in open(d):
        if l.startswith('+++ b/'): fs.add(l[6:].strip())
print(', '.join(sorted(fs)))
PY
)
mine=$(for d in /verif/seeded/$id*/patch.diff; do grep '^+++ b/' $d | sed 's#^+++ b/##'; done | sort -u | tr '\n' ' ')
git -C /repo worktree remove --force /tmp/seed/$name 2>/dev/null; rm -rf /tmp/seed/$name
git -C /repo worktree add -f --detach /tmp/seed/$name HEAD >/dev/null 2>&1 || exit 3
mkdir -p /tmp/seed/prompts
/verif/tools/seedprompt.py $id /tmp/seed/$name "Earlier seeded changes already used these files, so pick a DIFFERENT file and a different mechanism: $used. (For this very property the earlier change was in: $mine.) Never run pkill/killall - other jobs share the machine; stop your own background runs by their job id only." > /tmp/seed/prompts/$name.md
echo /tmp/seed/prompts/$name.md
