#!/bin/bash
# usage: tools/seedrun.sh <worktree-id> <check-id> [extra ./check args]
# Runs a check against the scratch worktree /tmp/seed/<worktree-id> (seeded change applied) from a
# scratch copy of /verif, so that /verif/evidence and /verif/replays are not disturbed.
wt=$1; id=$2; shift 2
rsync -a --delete --exclude .git --exclude 'bin/*' --exclude 'evidence/*' --exclude seeded /verif/ /var/tmp/vseed_$wt/
mkdir -p /var/tmp/vseed_$wt/bin /var/tmp/vseed_$wt/evidence
cd /var/tmp/vseed_$wt
VERIF_REPO=/tmp/seed/$wt VERIF_SEED=${VERIF_SEED:-0} timeout 3000 ./check $id "$@" > run.$id.log 2>&1
rc=$?
grep -E "^(VIOLATION|  detail|check |INCONCLUSIVE)" run.$id.log | cut -c1-700 | head -6
grep -h "failed after" evidence/.logs/$id.*.log 2>/dev/null | cut -c1-120 | head -2
echo "seedrun wt=$wt check=$id exit=$rc"
