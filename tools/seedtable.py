#!/usr/bin/env python3
"""Regenerates the seeded-change table in DESIGN.md (between the SEEDTABLE markers) from seeded/*/meta.json."""
import json, glob, os, re
V = os.path.dirname(os.path.dirname(os.path.abspath(__file__)))
rows = []
for d in sorted(glob.glob(os.path.join(V, 'seeded', '*'))):
    mp = os.path.join(d, 'meta.json')
    if not os.path.exists(mp):
        continue
    m = json.load(open(mp))
    files = ', '.join(m.get('files_changed') or [])
    if not files:
        pd = os.path.join(d, 'patch.diff')
        if os.path.exists(pd):
            files = ', '.join(sorted({l[6:].strip() for l in open(pd) if l.startswith('+++ b/')}))
    det = m.get('detection', {})
    rows.append('| %s | %s | %s | %s | %s |' % (os.path.basename(d), m.get('property', ''), files.replace('|', '/'),
                det.get('status', '').replace('|', '/'), det.get('by', '').replace('|', '/')))
table = '\n'.join(['| seeded change | property | files changed | outcome | detected by |', '|---|---|---|---|---|'] + rows)
p = os.path.join(V, 'DESIGN.md')
s = open(p).read()
b, e = '<!-- SEEDTABLE:BEGIN -->', '<!-- SEEDTABLE:END -->'
if b in s:
    s = s[:s.index(b) + len(b)] + '\n' + table + '\n' + s[s.index(e):]
else:
    s += '\n### 8.7 Seeded changes (independent sub-agents) and which checks catch them\n\n' \
         'Each change was produced by a fresh sub-agent that saw only the property text and a scratch worktree; I confirmed ' \
         'for each that the demonstration fails with the change and passes without it and that the existing tests of the ' \
         'changed packages and of the root package pass with it (details, including existing tests that can catch a change in ' \
         'some runs, in seeded/<id>/meta.json and confirm.log). "caught-after-strengthening" means the first version of the ' \
         'check missed it and the generator/oracle was extended (see 8.2); the notes in meta.json say how.\n\n' + b + '\n' + table + '\n' + e + '\n'
open(p, 'w').write(s)
print(len(rows), 'rows')
